//go:build !race

package harness

const raceEnabled = false

// RaceEnabled reports whether the worker was built with -race.
const RaceEnabled = false
