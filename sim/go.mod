module verifsim

go 1.25.0

require github.com/open2b/scriggo v0.0.0

replace github.com/open2b/scriggo => /repo
