// Package tree generates template file trees with reference graphs:
// relative, absolute and dot-dot paths (staying inside and escaping the
// root), self references, cycles through mixed statement kinds, the same
// partial referenced from several files, missing files.
package tree

import (
	"fmt"
	"sort"
	"strings"

	"verifsim/choice"
)

// Ref is one reference occurring in a file.
type Ref struct {
	Kind    string // "extends", "import", "render", "render-default"
	Path    string // as written
	Target  string // resolved in-root name, "" if escaping or invalid
	Escapes bool
	Invalid bool // not a valid template path (syntax error expected)
	Missing bool // resolves inside the root to a non-existent file
}

// Tree is a generated file tree.
type Tree struct {
	Files map[string]string
	Refs  map[string][]Ref
	Root  string
	Order []string // file names in generation order
}

// Describe returns a stable textual form.
func (t *Tree) Describe() string {
	names := make([]string, 0, len(t.Files))
	for n := range t.Files {
		names = append(names, n)
	}
	sort.Strings(names)
	var b strings.Builder
	fmt.Fprintf(&b, "root=%s\n", t.Root)
	for _, n := range names {
		fmt.Fprintf(&b, "--- %s\n%s\n", n, t.Files[n])
	}
	return b.String()
}

// Resolve resolves ref against the directory of parent with a segment stack
// (independent of path.Join). ok is false if the reference climbs above the
// root.
func Resolve(parent, ref string) (name string, ok bool) {
	var stack []string
	if strings.HasPrefix(ref, "/") {
		ref = ref[1:]
	} else {
		segs := strings.Split(parent, "/")
		stack = append(stack, segs[:len(segs)-1]...)
	}
	for _, seg := range strings.Split(ref, "/") {
		switch seg {
		case "..":
			if len(stack) == 0 {
				return "", false
			}
			stack = stack[:len(stack)-1]
		case ".", "":
			// not produced for valid paths
		default:
			stack = append(stack, seg)
		}
	}
	return strings.Join(stack, "/"), true
}

var dirs = []string{"", "a", "a/b", "c", "a/b/d", "c/e"}
var bases = []string{"f1.html", "f2.html", "p.x.html", "ü.html", "x y.html", "f3.html", "f4.html", "l.html", "m.html", "n1.html", "n2.html", "n3.html"}

// Options select generator behaviour.
type Options struct {
	Feature func(name string, num, den int) bool
	// Ext is the file extension (default ".html").
}

func relPath(fromDir, to string) string {
	var fd []string
	if fromDir != "" {
		fd = strings.Split(fromDir, "/")
	}
	ts := strings.Split(to, "/")
	i := 0
	for i < len(fd) && i < len(ts)-1 && fd[i] == ts[i] {
		i++
	}
	return strings.Repeat("../", len(fd)-i) + strings.Join(ts[i:], "/")
}

func dirOf(name string) string {
	if i := strings.LastIndex(name, "/"); i >= 0 {
		return name[:i]
	}
	return ""
}

func depthOf(name string) int { return strings.Count(name, "/") }

// Gen generates a tree.
func Gen(s *choice.Stream, o Options) *Tree {
	feat := func(name string, num, den int) bool {
		if o.Feature != nil {
			return o.Feature(name, num, den)
		}
		return s.Chance(num, den)
	}
	t := &Tree{Files: map[string]string{}, Refs: map[string][]Ref{}}
	n := s.Range(1, 10)
	maxDir := s.Range(0, len(dirs)-1)
	used := map[string]bool{}
	for i := 0; i < n; i++ {
		d := dirs[s.N(maxDir+1)]
		b := bases[s.N(len(bases))]
		name := b
		if d != "" {
			name = d + "/" + b
		}
		if used[name] {
			continue
		}
		used[name] = true
		t.Order = append(t.Order, name)
	}
	t.Root = t.Order[0]
	cyclesOK := feat("cycles", 2, 3)
	escapes := feat("escaping", 1, 2)
	missing := feat("missing", 1, 2)
	invalid := feat("invalid-paths", 1, 6)
	extAnywhere := feat("extends-anywhere", 1, 3)
	// roles: files reached by import contain only declarations; decide a role
	// per file: "page" (text+renders) or "lib" (macros only).
	role := map[string]string{}
	for i, name := range t.Order {
		role[name] = "page"
		if i > 0 && s.Chance(1, 4) {
			role[name] = "lib"
		}
	}
	pickTarget := func(from string, idx int) string {
		// Without the cycles feature only later files are referenced.
		if cyclesOK {
			return t.Order[s.N(len(t.Order))]
		}
		if idx+1 >= len(t.Order) {
			return ""
		}
		return t.Order[idx+1+s.N(len(t.Order)-idx-1)]
	}
	mkPath := func(from, target string) (string, Ref) {
		r := Ref{}
		form := s.Pick(4, 3, 1, 1, 1)
		switch {
		case form == 2 && escapes:
			// escaping: climb above the root
			up := depthOf(from) + 1 + s.N(2)
			p := strings.Repeat("../", up) + "esc.html"
			r.Escapes = true
			r.Path = p
			return p, r
		case form == 3 && missing:
			p := "zz_missing.html"
			if s.Bool() {
				p = "/zz/missing.html"
			}
			r.Missing = true
			r.Path = p
			r.Target, _ = Resolve(from, p)
			return p, r
		case form == 4 && invalid:
			p := []string{"a//b.html", "./f1.html", "a/../f1.html", "/", "", "a/./b.html", "/../f1.html", "x/../../y.html"}[s.N(8)]
			r.Invalid = true
			r.Path = p
			return p, r
		case form == 1:
			p := "/" + target
			r.Path = p
			r.Target = target
			return p, r
		default:
			p := relPath(dirOf(from), target)
			r.Path = p
			r.Target = target
			return p, r
		}
	}
	// Which files (other than the root) start with an extends statement is
	// drawn first, so that the root can be made to refer to one of them before
	// anything else (a rendered or imported file that extends is an error the
	// builder has to report whatever comes first).
	extending := make([]bool, len(t.Order))
	var extFiles []string
	for idx := range t.Order {
		if idx > 0 && extAnywhere && s.Chance(1, 4) {
			extending[idx] = true
			extFiles = append(extFiles, t.Order[idx])
		}
	}
	forcedFirst := ""
	if len(extFiles) > 0 && s.Chance(1, 2) {
		forcedFirst = extFiles[s.N(len(extFiles))]
	}
	nmacro := 0
	for idx, name := range t.Order {
		var b strings.Builder
		// The root may extend another file; with "extends-anywhere" so may any
		// other file (rendering or importing such a file is an error the
		// builder has to report).
		if len(t.Order) > 1 && (idx == 0 && forcedFirst == "" && feat("extends", 1, 4) || extending[idx]) {
			target := pickTarget(name, idx)
			if target != "" {
				p, r := mkPath(name, target)
				r.Kind = "extends"
				t.Refs[name] = append(t.Refs[name], r)
				fmt.Fprintf(&b, "{%% extends %q %%}", p)
				role[name] = "extending"
			}
		}
		ni := s.Small(2)
		if idx == 0 && forcedFirst != "" {
			// The first reference of the whole build: a file that extends,
			// rendered with or without default, or imported.
			ni = 0
			r := Ref{Path: "/" + forcedFirst, Target: forcedFirst}
			switch s.N(3) {
			case 0:
				r.Kind = "render-default"
				fmt.Fprintf(&b, "{{ render %q default \"D\" }}", r.Path)
			case 1:
				r.Kind = "render"
				fmt.Fprintf(&b, "{{ render %q }}", r.Path)
			case 2:
				r.Kind = "import"
				fmt.Fprintf(&b, "{%% import %q %%}", r.Path)
			}
			t.Refs[name] = append(t.Refs[name], r)
		}
		for k := 0; k < ni; k++ {
			target := pickTarget(name, idx)
			if target == "" {
				continue
			}
			p, r := mkPath(name, target)
			r.Kind = "import"
			t.Refs[name] = append(t.Refs[name], r)
			fmt.Fprintf(&b, "{%% import %q %%}", p)
		}
		switch role[name] {
		case "lib", "extending":
			nmacro++
			fmt.Fprintf(&b, "{%% macro M%d %%}m%d{%% end macro %%}", nmacro, nmacro)
		default:
			fmt.Fprintf(&b, "T%d;", idx)
		}
		nr := s.Small(3)
		for k := 0; k < nr; k++ {
			target := pickTarget(name, idx)
			if target == "" {
				continue
			}
			p, r := mkPath(name, target)
			switch role[name] {
			case "lib", "extending":
				// renders inside a macro body
				nmacro++
				if s.Chance(1, 3) {
					r.Kind = "render-default"
					fmt.Fprintf(&b, "{%% macro M%d %%}{{ render %q default \"D\" }}{%% end macro %%}", nmacro, p)
				} else {
					r.Kind = "render"
					fmt.Fprintf(&b, "{%% macro M%d %%}{{ render %q }}{%% end macro %%}", nmacro, p)
				}
			default:
				if s.Chance(1, 3) {
					r.Kind = "render-default"
					fmt.Fprintf(&b, "{{ render %q default \"D\" }}", p)
				} else {
					r.Kind = "render"
					fmt.Fprintf(&b, "{{ render %q }}", p)
				}
				fmt.Fprintf(&b, "t%d.%d;", idx, k)
			}
			t.Refs[name] = append(t.Refs[name], r)
		}
		t.Files[name] = b.String()
	}
	return t
}

// HasReachableCycle reports whether a reference cycle (through existing
// files) is reachable from the root.
func (t *Tree) HasReachableCycle() bool {
	state := map[string]int{}
	var visit func(string) bool
	visit = func(f string) bool {
		switch state[f] {
		case 1:
			return true
		case 2:
			return false
		}
		state[f] = 1
		for _, r := range t.Refs[f] {
			if r.Target == "" || r.Invalid {
				continue
			}
			if _, ok := t.Files[r.Target]; !ok {
				continue
			}
			if visit(r.Target) {
				return true
			}
		}
		state[f] = 2
		return false
	}
	return visit(t.Root)
}
