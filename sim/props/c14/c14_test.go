//go:build verif

// C14 — goroutine and channel programs agree with gc under every schedule.
//
// A generated concurrent program (schedule-independent output and Go-level
// race freedom by construction) is compiled by gc for the reference output and
// run on Scriggo's VM under several seeded schedules decided by the sched
// package: which goroutine runs next, for how many instructions, and which
// ready select case wins all come from the run's choice stream.
package c14

import (
	"context"
	"fmt"
	"os"
	"path/filepath"
	"strings"
	"sync"
	"testing"
	"time"

	"verifsim/gcref"
	"verifsim/gen/conc"
	"verifsim/harness"
	"verifsim/sched"

	"github.com/open2b/scriggo"
)

var theT *testing.T

func TestC14(t *testing.T) {
	theT = t
	sched.Install()
	harness.Main(t, harness.Check{Prop: "C14", Exec: exec, Prepare: prepare, ShrinkBudget: 40})
}

// ---- gc reference -------------------------------------------------------

var (
	mu      sync.Mutex
	bundles []*gcref.Bundle
	gcOut   = map[string]string{}
	nbundle int
)

func scratch() string {
	d := os.Getenv("VERIF_SCRATCH")
	if d == "" {
		d = os.TempDir()
	}
	return filepath.Join(d, fmt.Sprintf("gc-c14-%d", os.Getpid()))
}

// reference runs the programs of b at GOMAXPROCS 1 and 8 (and, in race mode,
// once more under gc's race detector as a cross-check of the generator).
func reference(b *gcref.Bundle, progs []gcref.Prog) {
	var jobs []gcref.Job
	for _, p := range progs {
		jobs = append(jobs, gcref.Job{Key: p.Key(), Env: []string{"GOMAXPROCS=1"}})
		jobs = append(jobs, gcref.Job{Key: p.Key(), Env: []string{"GOMAXPROCS=8"}})
	}
	res := b.RunMany(jobs, 4, 2*time.Minute)
	for i, p := range progs {
		a, c := res[2*i], res[2*i+1]
		if a.Exit != 0 || c.Exit != 0 || a.TimedOut || c.TimedOut {
			harness.Fail("gc reference run of a generated program failed (generator bug): exit %d/%d\n%s\n%s", a.Exit, c.Exit, a.Stderr, p.Files["main.go"])
		}
		if a.Stderr != c.Stderr {
			harness.Fail("generated program is schedule-dependent under gc (generator bug):\n%s\n---\n%s\n%s", a.Stderr, c.Stderr, p.Files["main.go"])
		}
		gcOut[p.Key()] = a.Stderr
	}
}

func buildBundle(progs []gcref.Prog) {
	nbundle++
	b, err := gcref.Build(filepath.Join(scratch(), fmt.Sprintf("b%d", nbundle)), nil, progs, false)
	if err != nil {
		src := ""
		if len(progs) == 1 {
			src = progs[0].Files["main.go"]
		}
		harness.Fail("gc cannot build generated programs (generator bug): %v\n%s", err, src)
	}
	bundles = append(bundles, b)
	reference(b, progs)
	if harness.RaceEnabled {
		nbundle++
		rb, err := gcref.Build(filepath.Join(scratch(), fmt.Sprintf("b%d", nbundle)), nil, progs, true)
		if err != nil {
			harness.Fail("gc -race cannot build generated programs: %v", err)
		}
		var jobs []gcref.Job
		for _, p := range progs {
			jobs = append(jobs, gcref.Job{Key: p.Key(), Env: []string{"GOMAXPROCS=4", "GORACE=halt_on_error=1 exitcode=66"}})
		}
		for i, r := range rb.RunMany(jobs, 4, 2*time.Minute) {
			if r.Exit != 0 {
				harness.Fail("generated program is not race-free under gc -race (generator bug): exit %d\n%s\n%s", r.Exit, r.Stderr, progs[i].Files["main.go"])
			}
		}
		os.RemoveAll(rb.Dir)
	}
}

func prepare(mk func(i int, mask map[string]bool) *harness.Run, from, to int, masks []map[string]bool) {
	var progs []gcref.Prog
	seen := map[string]bool{}
	for i := from; i < to; i++ {
		for _, m := range masks {
			r := mk(i, m)
			p := conc.Gen(r.S, conc.Options{Feature: r.Feature})
			gp := gcref.Prog{Files: p.Files}
			if !seen[gp.Key()] {
				seen[gp.Key()] = true
				progs = append(progs, gp)
			}
		}
	}
	buildBundle(progs)
}

func gcOutput(p gcref.Prog) string {
	mu.Lock()
	defer mu.Unlock()
	if o, ok := gcOut[p.Key()]; ok {
		return o
	}
	buildBundle([]gcref.Prog{p})
	return gcOut[p.Key()]
}

// ---- one simulated execution ----------------------------------------------

type printer struct {
	b strings.Builder
}

func (p *printer) print(v any) {
	s, ok := v.(string)
	if !ok {
		s = fmt.Sprint(v)
	}
	p.b.WriteString(s)
}

type simResult struct {
	out      string
	err      error
	panicked bool
	pval     any
	stack    string
	oc       sched.Outcome
	trace    string
	switches int
	probes   [8]int
	steps    int
}

func simulate(r *harness.Run, prog *scriggo.Program, policy, ctxKind int, logIt bool) simResult {
	var res simResult
	sched.Bubble(theT, func() {
		s := sched.New(r.S)
		s.Policy = policy
		s.MaxSteps = 200000
		if logIt {
			s.Log = r.Logf
		}
		var pr printer
		opts := &scriggo.RunOptions{Print: pr.print}
		var cancel context.CancelFunc
		switch ctxKind {
		case 1:
			opts.Context = context.Background()
		case 2:
			opts.Context, cancel = context.WithCancel(context.Background())
			s.RegisterContext(opts.Context)
		}
		s.Spawn("0", func() {
			res.panicked, res.pval, res.stack = harness.Guard(func() { res.err = prog.Run(opts) })
		})
		res.oc = s.Run(nil)
		res.out = pr.b.String()
		res.trace = s.TraceHash()
		res.switches = s.Switches
		res.probes = s.Probes
		res.steps = s.Step
		if cancel != nil {
			cancel()
		}
	})
	return res
}

var policyNames = []string{"uniform", "run-to-block", "alternate", "priority"}
var ctxNames = []string{"no-context", "background", "cancelable(never cancelled)"}

func exec(r *harness.Run) *harness.Violation {
	p := conc.Gen(r.S, conc.Options{Feature: r.Feature})
	gp := gcref.Prog{Files: p.Files}
	r.Artefact = map[string]any{"main.go": p.Files["main.go"], "blocks": p.Blocks}
	if r.ShowOnly() {
		return nil
	}
	want := gcOutput(gp)
	prog, err := scriggo.Build(scriggo.Files{"main.go": []byte(p.Files["main.go"])}, &scriggo.BuildOptions{AllowGoStmt: true})
	if err != nil {
		// gc accepts the program, Scriggo does not: a C03 matter. Counted.
		r.Count("skipped.build_error", 1)
		r.Logf("scriggo build error: %v", err)
		return nil
	}
	nsched := 8
	if r.Tier == "thorough" {
		nsched = 24
	}
	if harness.RaceEnabled {
		nsched = 4
	}
	for j := 0; j < nsched; j++ {
		policy := r.S.Pick(4, 2, 1, 2)
		ctxKind := r.S.N(3)
		res := simulate(r, prog, policy, ctxKind, false)
		r.Evals(1)
		r.Count("sched_steps", res.steps)
		r.Count("context_switches", res.switches)
		r.Count("policy."+policyNames[policy], 1)
		r.Count("probe.select_multi_ready", res.probes[sched.PSelectMultiReady])
		r.Count("probe.blocked_in_op", res.probes[sched.PBlockedOp])
		r.Count("probe.select_default_taken", res.probes[sched.PSelectDefault])
		if res.switches > 0 {
			r.Distinct(gp.Key() + "|" + res.trace)
		}
		ctx := fmt.Sprintf("schedule %d (%s, %s, %d steps, %d switches)", j, policyNames[policy], ctxNames[ctxKind], res.steps, res.switches)
		if j < 4 {
			// The event log (and its hash, compared by the determinism
			// self-test across the plain and race binaries) covers the
			// schedules both binaries execute.
			r.Logf("%s: outcome %s trace %s", ctx, res.oc.Kind, res.trace)
		}
		switch res.oc.Kind {
		case "mismatch":
			harness.Fail("channel model mismatch: %s", res.oc.Detail)
		case "deadlock":
			return harness.Violf("deadlock", "%s: all goroutines blocked although gc terminates: %s", ctx, strings.Join(res.oc.Blocked, "; "))
		case "step-cap":
			return harness.Violf("no-progress", "%s: step cap reached: %s", ctx, strings.Join(res.oc.Blocked, "; "))
		}
		if res.panicked {
			return harness.Violf("host-panic", "%s: Run panicked into the host with %T %v\n%s", ctx, res.pval, res.pval, res.stack)
		}
		if res.err != nil {
			return harness.Violf("run-error", "%s: Run returned %T %v, gc exits normally", ctx, res.err, res.err)
		}
		if res.out != want {
			return harness.Violf("wrong-output", "%s: output differs from gc's:\n--- scriggo\n%s--- gc\n%s", ctx, res.out, want)
		}
	}
	r.Sample(map[string]any{"program": gp.Key(), "blocks": p.Blocks, "schedules": nsched, "features": p.Features})
	return nil
}
