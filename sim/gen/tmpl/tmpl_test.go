package tmpl

import (
	"bytes"
	"fmt"
	"io"
	"sort"
	"strings"
	"testing"

	"verifsim/choice"

	"github.com/open2b/scriggo"
)

func conv(src []byte, out io.Writer) error {
	_, err := out.Write(src)
	return err
}

func TestGenBuilds(t *testing.T) {
	errs := map[string]int{}
	example := map[string]string{}
	ok := 0
	feats := map[string]int{}
	for i := 0; i < 3000; i++ {
		s := choice.New(uint64(i) * 7919)
		set := Gen(s, Options{})
		for _, f := range set.Features {
			feats[f]++
		}
		tm, err := scriggo.BuildTemplate(scriggo.Files(set.FilesBytes()), set.Main, &scriggo.BuildOptions{Globals: set.Globals, MarkdownConverter: conv})
		if err != nil {
			msg := err.Error()
			if j := strings.Index(msg, ": "); j > 0 {
				msg = msg[j+2:]
			}
			if len(msg) > 70 {
				msg = msg[:70]
			}
			errs[msg]++
			if _, ok := example[msg]; !ok {
				example[msg] = err.Error() + "\n" + set.Describe()
			}
			continue
		}
		var b bytes.Buffer
		var err2 error
		func() {
			defer func() {
				if e := recover(); e != nil {
					err2 = fmt.Errorf("PANIC %v", e)
				}
			}()
			err2 = tm.Run(&b, set.Vars, nil)
		}()
		if err := err2; err != nil {
			msg := "RUN: " + err.Error()
			if len(msg) > 70 {
				msg = msg[:70]
			}
			errs[msg]++
			if _, ok := example[msg]; !ok {
				example[msg] = err.Error() + "\n" + set.Describe()
			}
			continue
		}
		ok++
	}
	t.Logf("ok=%d", ok)
	keys := []string{}
	for k := range errs {
		keys = append(keys, k)
	}
	sort.Slice(keys, func(i, j int) bool { return errs[keys[i]] > errs[keys[j]] })
	for _, k := range keys {
		t.Logf("%4d %s", errs[k], k)
	}
	for i, k := range keys {
		if i < 6 {
			t.Logf("EXAMPLE %s", example[k])
		}
	}
	t.Logf("features %v", feats)
}
