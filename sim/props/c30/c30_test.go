//go:build verif && maporder

// C30 — building is deterministic.
//
// Seams: (1) Go's map iteration order inside the compiler — this test is built
// against a scratch copy of /repo in which the maporder tool has rewritten
// every range-over-map of the compiler and public packages to iterate in an
// order decided by the simulator (canonical, reverse, rotation, seeded shuffle
// that differs at every loop); (2) build histories: the same source is built
// repeatedly in one process interleaved with builds of other sources, and in
// several processes (the determinism self-test of the driver compares the
// per-run digests across processes); (3) the lexer's token channel capacity.
package c30

import (
	"crypto/sha256"
	"encoding/hex"
	"errors"
	"fmt"
	"io"
	"io/fs"
	"os"
	"path/filepath"
	"regexp"
	"sort"
	"strconv"
	"strings"
	"testing"

	"verifsim/choice"
	"verifsim/gen/conc"
	"verifsim/gen/skel"
	"verifsim/gen/tmpl"
	"verifsim/harness"
	"verifsim/stdpkgs"

	"github.com/open2b/scriggo"
	"github.com/open2b/scriggo/native"
)

func TestC30(t *testing.T) {
	loadCorpus()
	harness.Main(t, harness.Check{Prop: "C30", Exec: exec, ShrinkBudget: 150, FreshProcess: true})
}

type source struct {
	name    string
	program bool
	files   map[string][]byte
	root    string
	opts    *scriggo.BuildOptions
	noRun   bool
	vars    map[string]any
	pkgs    []string
}

var corpus []source

// hugeArray over-approximates "declares an array of 2^27 elements or more":
// any integer literal, shift or exponent that large anywhere in the file.
var hugeArray = regexp.MustCompile(`\d{9,}|1\s*<<\s*(2[7-9]|[3-6]\d)|\de(9|[1-9]\d)\b|0x[0-9a-fA-F]{8,}`)

func loadCorpus() {
	if corpus != nil {
		return
	}
	repo := os.Getenv("VERIF_REPO")
	if repo == "" {
		repo = "/repo"
	}
	base := filepath.Join(repo, "test", "compare", "testdata")
	var paths []string
	filepath.WalkDir(base, func(p string, d fs.DirEntry, err error) error {
		if err != nil {
			return nil
		}
		if d.IsDir() && strings.HasSuffix(p, ".dir") {
			return filepath.SkipDir
		}
		if !d.IsDir() {
			paths = append(paths, p)
		}
		return nil
	})
	sort.Strings(paths)
	for _, p := range paths {
		ext := filepath.Ext(p)
		if ext != ".go" && ext != ".html" && ext != ".md" {
			continue
		}
		data, err := os.ReadFile(p)
		if err != nil || len(data) > 64<<10 {
			continue
		}
		if hugeArray.Match(data) {
			// A declared array of a gigabyte or more: the type checker
			// allocates its zero value at build time (a finding of C04), and
			// this check builds every source several times in one process.
			continue
		}
		rel, _ := filepath.Rel(base, p)
		src := source{name: rel, files: map[string][]byte{}, pkgs: []string{"main"}}
		dir := strings.TrimSuffix(p, ext) + ".dir"
		if ext == ".go" {
			src.program = true
			src.files["main.go"] = data
			src.files["go.mod"] = []byte("module testdata\n")
		} else {
			src.root = "index" + ext
			src.files[src.root] = data
		}
		if st, err := os.Stat(dir); err == nil && st.IsDir() {
			filepath.WalkDir(dir, func(q string, d fs.DirEntry, err error) error {
				if err != nil || d.IsDir() {
					return nil
				}
				b, err := os.ReadFile(q)
				if err == nil && len(b) <= 64<<10 {
					r, _ := filepath.Rel(dir, q)
					src.files[filepath.ToSlash(r)] = b
				}
				return nil
			})
		}
		corpus = append(corpus, src)
	}
	if len(corpus) < 500 {
		harness.Fail("comparison corpus not found under %s (%d files)", base, len(corpus))
	}
}

var hPackage = native.Package{Name: "h", Declarations: native.Declarations{
	"Point": func(env native.Env, id int) {},
	"Rec":   func(id int, v any) {},
	"Call":  func(id int, f func()) { f() },
	"Err":   func(id int) error { return errors.New("e" + strconv.Itoa(id)) },
	"Yes":   func(id int) bool { return true },
}}

func conv(src []byte, out io.Writer) error { _, err := out.Write(src); return err }

// artefact is everything observable of one build.
type artefact struct {
	ok      bool
	errText string
	disasm  string
	used    string
	format  string
	run     string
}

func (a artefact) digest() string {
	h := sha256.Sum256([]byte(fmt.Sprintf("%v|%s|%s|%s|%s", a.ok, a.disasm, a.used, a.format, a.run)))
	return hex.EncodeToString(h[:8])
}

func build(src source) (a artefact, panicked bool, pval any, stack string) {
	panicked, pval, stack = harness.Guard(func() {
		fsys := scriggo.Files(src.files)
		if src.program {
			p, err := scriggo.Build(fsys, src.opts)
			if err != nil {
				a.errText = err.Error()
				return
			}
			a.ok = true
			for _, pkg := range src.pkgs {
				d, _ := p.Disassemble(pkg)
				a.disasm += "== " + pkg + "\n" + string(d)
			}
			if src.opts != nil && src.opts.Packages != nil && !src.noRun {
				var out strings.Builder
				err := p.Run(&scriggo.RunOptions{Print: func(v any) { fmt.Fprint(&out, v) }})
				a.run = fmt.Sprintf("%s|%v", out.String(), err)
			}
			return
		}
		t, err := scriggo.BuildTemplate(fsys, src.root, src.opts)
		if err != nil {
			a.errText = err.Error()
			return
		}
		a.ok = true
		a.disasm = string(t.Disassemble(-1))
		a.used = strings.Join(t.UsedVars(), ",")
		a.format = t.Format().String()
		if src.vars != nil {
			var out strings.Builder
			err := t.Run(&out, tmpl.FreshVars(src.vars), nil)
			a.run = fmt.Sprintf("%s|%v", out.String(), err)
		}
	})
	return
}

func firstDiff(a, b string) string {
	la, lb := strings.Split(a, "\n"), strings.Split(b, "\n")
	for i := 0; i < len(la) || i < len(lb); i++ {
		x, y := "<end>", "<end>"
		if i < len(la) {
			x = la[i]
		}
		if i < len(lb) {
			y = lb[i]
		}
		if x != y {
			return fmt.Sprintf("line %d: %q vs reference %q", i+1, x, y)
		}
	}
	return "no difference"
}

// typedProgram generates a sequential program around named types over the
// basic kinds, untyped constants converted to them, struct types with
// unexported fields, interface conversions and type switches: the places
// where the type checker keeps per-type state (shared predeclared constants,
// package indexes in field names).
func typedProgram(s *choice.Stream) string {
	var b strings.Builder
	b.WriteString("package main\n\ntype B bool\ntype I int\ntype F float64\ntype S string\ntype T struct {\n\tx int\n\ts string\n}\ntype U struct {\n\tA int\n\tb B\n}\n\nfunc main() {\n")
	n := 2 + s.N(7)
	for k := 0; k < n; k++ {
		switch s.N(11) {
		case 0:
			fmt.Fprintf(&b, "\tx%d := true\n\tvar i%d interface{} = x%d\n\tswitch i%d.(type) {\n\tcase bool:\n\t\tprintln(\"bool\")\n\tcase B:\n\t\tprintln(\"B\")\n\t}\n", k, k, k, k)
		case 1:
			fmt.Fprintf(&b, "\tvar b%d B = %v\n\tprintln(bool(b%d))\n", k, s.Bool(), k)
		case 2:
			fmt.Fprintf(&b, "\tvar n%d I = %d\n\tvar j%d interface{} = n%d\n\t_, ok%d := j%d.(int)\n\tprintln(ok%d)\n", k, s.N(9), k, k, k, k, k)
		case 3:
			fmt.Fprintf(&b, "\tt%d := T{%d, \"a\"}\n\tvar k%d interface{} = t%d\n\tif v, ok := k%d.(T); ok {\n\t\tprintln(\"T\", v.x)\n\t}\n", k, s.N(9), k, k, k)
		case 4:
			fmt.Fprintf(&b, "\tu%d := U{A: %d, b: false}\n\tu%d.b = true\n\tprintln(u%d.A, bool(u%d.b))\n", k, s.N(9), k, k, k)
		case 5:
			fmt.Fprintf(&b, "\tconst c%d = false\n\tvar d%d B = c%d\n\tvar e%d = c%d\n\tprintln(bool(d%d), e%d)\n", k, k, k, k, k, k, k)
		case 6:
			fmt.Fprintf(&b, "\tvar f%d F = 1.5\n\tvar g%d S = \"s\"\n\tvar h%d interface{} = f%d\n\tswitch h%d.(type) {\n\tcase float64:\n\t\tprintln(\"float64\")\n\tcase F:\n\t\tprintln(\"F\", len(g%d))\n\t}\n", k, k, k, k, k, k)
		case 7:
			fmt.Fprintf(&b, "\ty%d := false || true\n\tvar z%d B = true && B(y%d)\n\tprintln(y%d, bool(z%d))\n", k, k, k, k, k)
		case 8:
			fmt.Fprintf(&b, "\tm%d := map[B]I{true: 1, false: 2}\n\tprintln(int(m%d[true]), len(m%d))\n", k, k, k)
		case 9:
			fmt.Fprintf(&b, "\ttype L%d struct {\n\t\tp, q int\n\t}\n\tl%d := []L%d{{1, 2}, {3, %d}}\n\tprintln(l%d[1].q)\n", k, k, k, s.N(9), k)
		case 10:
			fmt.Fprintf(&b, "\tvar a%d interface{} = struct{ v B }{true}\n\t_, ok%d := a%d.(struct{ v B })\n\tprintln(ok%d)\n", k, k, k, k)
		}
	}
	b.WriteString("}\n")
	return b.String()
}

// multiPackageProgram generates a program of 3-5 packages, each declaring
// struct types with unexported fields (the compiler keeps a per-compilation
// index of packages to tell such fields apart) and functions that test values
// of the other packages' types against their own.
func multiPackageProgram(s *choice.Stream) (map[string][]byte, []string) {
	np := 2 + s.N(3)
	files := map[string][]byte{"go.mod": []byte("module m\n")}
	pkgs := []string{"main"}
	var imports, calls strings.Builder
	for i := 0; i < np; i++ {
		name := fmt.Sprintf("p%c", 'a'+i)
		pkgs = append(pkgs, "m/"+name)
		src := fmt.Sprintf("package %s\n\ntype T struct {\n\tf int\n}\n\ntype u struct {\n\tg string\n\th int\n}\n\nfunc New(v int) interface{} { return T{v} }\n\nfunc Is(x interface{}) bool {\n\t_, ok := x.(T)\n\treturn ok\n}\n\nfunc Anon(v int) interface{} { return struct{ f int }{v} }\n\nfunc IsAnon(x interface{}) bool {\n\t_, ok := x.(struct{ f int })\n\treturn ok\n}\n\nfunc Hidden() int { return len(u{\"ab\", %d}.g) }\n", name, i)
		files[name+"/"+name+".go"] = []byte(src)
		fmt.Fprintf(&imports, "\t\"m/%s\"\n", name)
	}
	for i := 0; i < np; i++ {
		a := fmt.Sprintf("p%c", 'a'+i)
		fmt.Fprintf(&calls, "\tx%d := %s.New(%d)\n\ty%d := %s.Anon(%d)\n\tprintln(%s.Hidden()", i, a, i, i, a, i, a)
		for j := 0; j < np; j++ {
			b := fmt.Sprintf("p%c", 'a'+j)
			fmt.Fprintf(&calls, ", %s.Is(x%d), %s.IsAnon(y%d)", b, i, b, i)
		}
		fmt.Fprintf(&calls, ")\n\t_, okm%d := y%d.(struct{ f int })\n\tprintln(okm%d)\n", i, i, i)
	}
	main := "package main\n\nimport (\n" + imports.String() + ")\n\ntype L struct {\n\tf int\n}\n\nfunc main() {\n\tl := L{1}\n\t_ = l\n" + calls.String() + "}\n"
	files["main.go"] = []byte(main)
	return files, pkgs
}

func pickSource(r *harness.Run) source {
	s := r.S
	switch s.Pick(5, 3, 1, 1, 3, 2) {
	case 5:
		files, pkgs := multiPackageProgram(s)
		return source{name: "generated multi-package program", program: true, files: files, pkgs: pkgs,
			opts: &scriggo.BuildOptions{Packages: native.Packages{}}}
	case 4:
		return source{name: "generated typed program", program: true, files: map[string][]byte{"main.go": []byte(typedProgram(s))}, pkgs: []string{"main"},
			opts: &scriggo.BuildOptions{Packages: native.Packages{}}}
	case 1:
		set := tmpl.Gen(s, tmpl.Options{Feature: r.Feature})
		return source{name: "generated template set", files: set.FilesBytes(), root: set.Main, vars: set.Vars,
			opts: &scriggo.BuildOptions{Globals: set.Globals, MarkdownConverter: conv}}
	case 2:
		p := skel.Gen(s, skel.Options{Feature: r.Feature})
		src := source{name: "generated skeleton program", program: true, files: map[string][]byte{}, pkgs: []string{"main"},
			opts: &scriggo.BuildOptions{Packages: native.Packages{"h": hPackage}}}
		for n, c := range p.Files {
			src.files[n] = []byte(c)
			if strings.HasPrefix(n, "sub1/") {
				src.pkgs = append(src.pkgs, "m/sub1")
			}
		}
		return src
	case 3:
		p := conc.Gen(s, conc.Options{Feature: r.Feature})
		return source{name: "generated concurrent program", program: true, files: map[string][]byte{"main.go": []byte(p.Files["main.go"])}, pkgs: []string{"main"},
			opts: &scriggo.BuildOptions{AllowGoStmt: true}}
	}
	src := corpus[s.N(len(corpus))]
	src.opts = &scriggo.BuildOptions{AllowGoStmt: true}
	if src.program {
		// The standard library subset the corpus programs import. They are
		// built and disassembled, never run (they may touch the real system).
		src.opts.Packages = stdpkgs.Packages
		src.noRun = true
	}
	return src
}

var modeNames = []string{"canonical", "reverse", "rotation", "shuffle"}

func exec(r *harness.Run) *harness.Violation {
	s := r.S
	nsrc := s.Range(1, 3)
	srcs := make([]source, nsrc)
	refs := make([]artefact, nsrc)
	desc := []string{}
	for i := range srcs {
		srcs[i] = pickSource(r)
		desc = append(desc, srcs[i].name)
	}
	r.Artefact = map[string]any{"sources": desc, "files": fmt.Sprintf("%s", srcs[0].files)}
	if r.ShowOnly() {
		return nil
	}
	// Reference builds: canonical map order, first in the history.
	for i, src := range srcs {
		scriggo.SetSimMapOrder(0, 0)
		scriggo.SetSimTokenChanCap(-1)
		a, p, val, stack := build(src)
		r.Evals(1)
		if p {
			// a C04 matter; not judged here
			r.Count("skipped.build_panicked", 1)
			r.Logf("build of %s panicked: %v\n%s", src.name, val, harness.FuncsOnly(stack))
			return nil
		}
		refs[i] = a
		r.Logf("reference %s: ok=%v digest %s", src.name, a.ok, a.digest())
		if a.ok {
			r.Count("probe.source_builds", 1)
		}
	}
	calls0, unc0 := scriggo.SimMapOrderStats()
	// The history: every source is rebuilt several times, interleaved, under
	// drawn map orders and token channel capacities.
	nb := 3 + s.N(4)
	for k := 0; k < nb; k++ {
		i := s.N(nsrc)
		mode := 1 + s.N(3)
		seed := uint64(s.N(1 << 30))
		capacity := []int{-1, 0, 1, 3}[s.N(4)]
		scriggo.SetSimMapOrder(mode, seed)
		scriggo.SetSimTokenChanCap(capacity)
		a, p, val, _ := build(srcs[i])
		scriggo.SetSimMapOrder(0, 0)
		scriggo.SetSimTokenChanCap(-1)
		r.Evals(1)
		r.Count("maporder."+modeNames[mode], 1)
		ctx := fmt.Sprintf("build %d of the history (%s, map order %s seed %d, token channel capacity %d)", k+1, srcs[i].name, modeNames[mode], seed, capacity)
		if p {
			return harness.Violf("build-panicked-only-sometimes", "%s: the build panicked (%v) although the reference build of the same source did not", ctx, val)
		}
		ref := refs[i]
		if a.ok != ref.ok {
			return harness.Violf("builds-or-not", "%s: build succeeded=%v (%s), reference build succeeded=%v (%s)", ctx, a.ok, a.errText, ref.ok, ref.errText)
		}
		if !a.ok {
			if a.errText != ref.errText {
				r.Count("observation.error_text_varies", 1)
			}
			continue
		}
		r.Distinct(fmt.Sprintf("%s|%s|%d|%d|%d", srcs[i].name, ref.digest(), mode, seed, capacity))
		if a.disasm != ref.disasm {
			return harness.Violf("disassembly-differs", "%s: disassembly differs from the reference build: %s", ctx, firstDiff(a.disasm, ref.disasm))
		}
		if a.used != ref.used {
			return harness.Violf("usedvars-differ", "%s: UsedVars %q, reference %q", ctx, a.used, ref.used)
		}
		if a.format != ref.format {
			return harness.Violf("format-differs", "%s: Format %s, reference %s", ctx, a.format, ref.format)
		}
		if a.run != ref.run {
			return harness.Violf("behaviour-differs", "%s: running the artefact gives %q, reference %q", ctx, a.run, ref.run)
		}
	}
	calls1, unc1 := scriggo.SimMapOrderStats()
	r.Count("map_iterations_controlled", int(calls1-calls0))
	r.Count("map_iterations_without_canonical_order", int(unc1-unc0))
	r.Sample(map[string]any{"sources": desc, "builds": nb, "reference_digests": []string{refs[0].digest()}})
	return nil
}
