//go:build race

package harness

const raceEnabled = true

// RaceEnabled reports whether the worker was built with -race.
const RaceEnabled = true
