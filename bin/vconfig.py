"""Per-property configuration of bin/vcheck."""

REAL_NATIVE = ["native.Package", "native.CombinedPackage", "native.CombinedImporter", "native.Packages"]

HOOK_COMMITS = ["65a4ceb", "6474106", "0126525"]

ENGINES = [
    {"name": "detsim", "path": "/verif/maporder + /verif/sim/props/c30", "serves_properties": ["C30"],
     "kind_free_text": "map-order seam: a go/packages-based rewriter turns every range-over-map of the compiler into a simulator-ordered iteration in a scratch copy of /repo; the check rebuilds sources under seeded orders and interleaved histories and compares artefacts with a canonical-order reference, within and across processes"},
    {"name": "buildsim", "path": "/verif/sim/simio + /verif/sim/props/{c18,c04}", "serves_properties": ["C18", "C04"],
     "kind_free_text": "builds run against a simulated disk (recording fs.FS with injected I/O errors, not-found lies, short/zero reads, torn and bit-flipped stored files) and, for C04, inside a testing/synctest bubble so that the parser/lexer goroutine pair is observed for deadlock and leaked goroutines; token channel capacity is a per-run knob (guarded hook)"},
    {"name": "vmsim", "path": "/verif/sim/sched + /verif/sim/props/{c14,c11,c10}", "serves_properties": ["C14", "C11", "C10"],
     "kind_free_text": "deterministic scheduler for code running on Scriggo's VM: real goroutines inside a testing/synctest bubble park on private condition variables at the guarded hooks (every instruction, before/after every channel operation, go statements, natives, writers); the bubble root draws the next goroutine, its quantum, the winning select case, cancellation points and clock jumps from one recorded stream; gc-compiled reference; race-detector mode"},
    {"name": "faultsim", "path": "/verif/sim/props/{c12,c13,c22}", "serves_properties": ["C12", "C13", "C22"],
     "kind_free_text": "sequential fault enumeration through public seams (callback / io.Writer / native-call boundary): every fault point k of a fault-free run is re-executed with the fault injected at k; choices come from one recorded stream (sim/choice), failures are shrunk and replayed (sim/harness)"},
]

CHECKS = {
    "C22": {
        "id": "C22", "pkg": "c22", "test": "TestC22", "level": "fault_enumeration",
        "runs": {"quick": 15000, "thorough": 400000},
        "chunk": 20000,
        "rule": "each run draws a tree of native packages (Package / nested CombinedPackage / hand-written ImportablePackage, 0-6 names from a 4-6 letter alphabet) and an importer chain; "
                "LookupFunc is then executed once fault-free and once for EVERY callback call index k=1..distinct+1 with both fault kinds (error E, StopLookup), Lookup for every name, Import once. "
                "evaluations = individual Lookup/LookupFunc/Import executions; distinct_nontrivial = distinct (package tree, k, kind) triples whose fault actually fired, plus distinct fault-free trees and importer chains",
        "components": {"real": REAL_NATIVE, "stub": ["LookupFunc callback (fault seam)", "Importer implementations returning drawn answers", "hand-written ImportablePackage obeying the contract"]},
        "engine": "faultsim", "design_ref": "DESIGN.md section 5, C22",
        "technique": "deterministic simulation with fault injection: seeded package/importer histories, callback failure injected at every call index, reference map model",
        "level_text": "Seeded generation of package trees and importer chains with exhaustive enumeration of the callback's failure point and kind per tree, compared call by call with a first-occurrence-wins map model. The only nondeterminism in the property (map iteration order, a failing callback) is owned by the harness, so enumeration of fault points per generated history is the right strength; the space of trees is sampled, not exhausted.",
        "level_note": "Trusts the reference model (first package having the name wins) and that declarations are distinguishable non-nil values; trees have at most 3 levels and 6 names.",
        "assumptions": ["declarations are non-nil comparable values", "hand-written ImportablePackage implementations obey the documented contract themselves"],
    },
    "C13": {
        "id": "C13", "pkg": "c13", "test": "TestC13", "level": "fault_enumeration",
        "runs": {"quick": 6000, "thorough": 600000},
        "chunk": 2000,
        "rule": "each run takes a template set - five times out of six a generated one, else one of the repository's comparison-corpus templates (with its .dir companions; only those that build and render fault-free and reproducibly with fixed-clock native packages) - (generated sets: 1-6 files: html/md/js/css/json/txt main, extends/import/render, macros with every result format incl. Markdown-in-HTML conversion, shows in all contexts of escape-relevant values, defer with and without recover)), renders it fault-free to count the write calls W (Write and WriteString; the writer randomly implements io.StringWriter), then re-renders once per fault point: EVERY k in 1..W (a drawn 400-subset if W>400) x {(0,E), short write (n,E)}. "
                "evaluations = renders; distinct_nontrivial = distinct (template set, k, kind) triples whose fault fired",
        "components": {"real": ["scriggo.BuildTemplate", "Template.Run", "VM", "renderer", "escapers"], "stub": ["io.Writer / io.StringWriter (fault seam)", "Markdown converter passing the writer's error through, writing in 3-5 pieces"]},
        "engine": "faultsim", "design_ref": "DESIGN.md section 5, C13",
        "technique": "deterministic simulation with fault injection: seeded template sets, write failure (error and short write) injected at every write call of a fault-free render",
        "level_text": "Per generated template set the failure position is enumerated exhaustively (every write call of the successful render, two failure kinds); template sets are sampled from a seeded generator. Strict oracle for templates without recover: Run returns E itself, no further write call, accepted bytes are a prefix of the fault-free output, no host panic; templates that recover are only required not to panic the host (the statement exempts them).",
        "level_note": "Trusts that rendering is deterministic for fixed inputs (checked: a fault point that never fires is reported). Templates whose fault-free render fails are skipped and counted (outside the property). The generator's template shapes bound what is explored; corpus templates are not yet included.",
        "assumptions": ["the Markdown converter returns the writer's error unchanged (as goldmark does)", "fault-free rendering of the generated set succeeds (otherwise the set is skipped and counted)"],
    },
    "C12": {
        "id": "C12", "pkg": "c12", "test": "TestC12", "level": "fault_enumeration",
        "runs": {"quick": 320, "thorough": 6000},
        "chunk": 32, "min_chunk": 16, "run_timeout_s": 30, "shrink_allowance_s": 600,
        "selftest": {"quick": 6, "thorough": 24}, "selftest_procs": {"quick": 2, "thorough": 6},
        "rule": "each run draws a skeleton program (functions, func-typed variables, closures, sub-package, defer of closures / functions / natives, recover also after other statements of a deferred function, explicit panics of string/int/error values, panic ladders - a literal that panics under 2-4 deferred closures that recover, panic again, do both, re-panic the recovered value or recover a nested panic -, native callbacks; one observable action per line), or a template variant (imported macros, extends), and runs it fault-free to record the h.Point call sequence (length W); then for EVERY k in 1..W the k-th Point call delivers Stop(E), Fatal(v) and a host panic (kind string/int/error chosen as a pure function of program and k). "
                "evaluations = Scriggo executions; distinct_nontrivial = distinct (program, k, kind) triples whose fault fired",
        "components": {"real": ["scriggo.Build", "Program.Run", "VM (call stack, defer, recover, panic chain)", "convertPanic", "PanicError accessors"],
                       "stub": ["native package h (fault seam: Point delivers Stop/Fatal/panic; Rec, Call, Err, Yes record events)", "gc-compiled build of the same source with the same fault plan as reference for panics (go1.26.8, one process per (program, k))"]},
        "engine": "faultsim", "design_ref": "DESIGN.md section 5, C12",
        "technique": "deterministic simulation with fault injection: seeded skeleton programs, Stop/Fatal/host panic injected at every native call of a fault-free run, gc-compiled reference for panic semantics",
        "level_text": "Per generated program every native-call fault point is enumerated with three fault kinds. Stop/Fatal oracles are self-referential (exact error/value identity; the event sequence is the fault-free sequence cut at the fault: nothing, deferred or not, ran afterwards). Panic oracles compare events, outcome, the whole panic chain with recovered flags, and the path/line of every chain element with the same program compiled by gc under the same fault plan.",
        "level_note": "Trusts gc (go1.26.8) as the semantics of defer/panic/recover and the parsing of its crash header; gc prints a panic whose value is identical to the value of the panic it superseded only once, so both chains are compared with runs of equal printed values reduced to their earliest element; panic values are strings, ints and errors.New values; panics inside native callbacks are always recovered inside the callback (Scriggo documents an unrecovered callback panic as fatal by design).",
        "assumptions": ["gc's `panic: v [recovered]` header format (stable since Go 1.18)", "programs only use language features Scriggo supports (no methods)"],
    },
    "C14": {
        "id": "C14", "pkg": "c14", "test": "TestC14", "level": "exploration",
        "runs": {"quick": 128, "thorough": 4000},
        "race_runs": {"quick": 32, "thorough": 800},
        "chunk": 64, "min_chunk": 16, "run_timeout_s": 30, "shrink_allowance_s": 600,
        "selftest": {"quick": 8, "thorough": 32}, "selftest_procs": {"quick": 3, "thorough": 9},
        "rule": "each run draws a concurrent program (1-4 blocks from: pipeline, fan-out/fan-in, ping-pong, mutex-by-channel, select with several simultaneously ready receive / send cases, select loop with quit channel, go with 0-12 mixed arguments optionally deep in the stack or from a deferred function, channel of channels, wait-group by counting channel, last-producer-closes; element types int..uint64, floats, string, bool, slice, pointer, interface, func, struct, map; buffered and unbuffered) whose output is schedule-independent by construction, and executes it under 8 (quick) / 24 (thorough) / 4 (race mode) seeded schedules (uniform, run-to-block, alternate, priority change points; select-case choice drawn; with/without a never-cancelled context). "
                "evaluations = simulated executions; distinct_nontrivial = distinct (program, context-switch trace hash) pairs with at least one context switch",
        "components": {"real": ["scriggo.Build", "Program.Run", "VM incl. startGoroutine, OpSend/OpReceive/OpSelect/OpRange/OpClose via reflect", "real goroutines and real channels inside a testing/synctest bubble", "Go race detector (race-mode runs)"],
                       "stub": ["goroutine scheduling: parked on private sync.Cond at the verif hooks, released one at a time by the seeded scheduler", "reflect.Select's random choice: non-chosen ready cases neutralised so that the stream decides", "gc-compiled build of the same source (GOMAXPROCS 1 and 8, plus -race in race mode) as reference output"]},
        "engine": "vmsim", "design_ref": "DESIGN.md section 5, C14",
        "technique": "deterministic simulation: seeded scheduler over real goroutines (synctest bubble + guarded VM hooks) deciding every interleaving and select choice; gc reference output; race detector under a serial, replayable schedule",
        "level_text": "Seeded search over schedules of generated concurrent programs. The oracle is exact (printed output equals gc's, Run returns nil, no host panic, every goroutine finished, no deadlock, no step-cap), and in race mode the race detector observes only the interpreter's own synchronisation because parked goroutines wait on private condition variables. A clean batch is evidence, not proof: schedules and programs are sampled.",
        "level_note": "Trusts gc as reference, the generator's by-construction schedule independence (cross-checked by running gc at GOMAXPROCS 1 and 8 and under gc -race in race mode), and the channel readiness model (a disagreement with reality aborts with exit 2, never a violation).",
        "assumptions": ["programs stay inside the block catalogue", "no goroutine panics under Go semantics"],
    },
    "C11": {
        "id": "C11", "pkg": "c11", "test": "TestC11", "level": "exploration",
        "runs": {"quick": 2500, "thorough": 150000},
        "chunk": 400, "run_timeout_s": 20,
        "rule": "each run draws a program from the concurrent generator, 70% in non-terminating mode (0-2 terminating blocks followed by: tight loop, loop with calls, unbounded recursion, nested loops, blocked send, blocked receive, select with/without default, select{}, range over a channel nobody closes, main waiting for a spinning child; optionally children that spin or block) and 30% terminating, and executes it under 6 seeded (schedule, cancellation plan) pairs: context kind (WithCancel, cancel of a parent, deadline reached by jumping the bubble's fake clock, already cancelled, Background, deadline never reached), firing rule (at a drawn scheduler step, at the first quiescence with the main goroutine blocked inside an operation, when nothing is runnable), scheduling policy. "
                "evaluations = simulated executions; distinct_nontrivial = distinct (program, context-switch trace, position of the main goroutine when the event fired) triples in which the cancellation event fired",
        "components": {"real": ["scriggo.Build", "Program.Run", "VM run loop done-flag poll, per-runFunc watcher goroutines, doneCase of OpSend/OpReceive/OpSelect/OpRange", "context package (real contexts on the bubble's fake clock)"],
                       "stub": ["goroutine scheduling (seeded scheduler over the verif hooks)", "time: testing/synctest fake clock, advanced only by the scheduler"]},
        "engine": "vmsim", "design_ref": "DESIGN.md section 5, C11",
        "technique": "deterministic simulation with fault injection: seeded scheduler plus cancellation / deadline events injected at drawn scheduler steps and at blocked-in-operation instants, fake clock; latency measured in interpreted instructions",
        "level_text": "Seeded search over (program, schedule, cancellation instant). Oracle in steps, never wall time: once the event fired and the bubble went quiescent (watchers ran), the main goroutine executes at most 4 more instructions and Run returns exactly ctx.Err(); a quiescent or step-capped bubble with Run outstanding is `cancel-ignored`; no host panic; if the code finished first Run returns nil and the output of a context-free run. Whether started goroutines also stop is recorded as an observation only (the statement demands that Run returns).",
        "level_note": "Trusts testing/synctest's quiescence detection and fake clock and the channel readiness model (disagreement = exit 2). Blocking inside host (native) code is out of scope. Programs come from the block catalogue only.",
        "assumptions": ["non-terminating programs never finish on their own within the step cap", "an already-cancelled context may yield either ctx.Err() or the program's own outcome"],
    },
    "C10": {
        "id": "C10", "pkg": "c10", "test": "TestC10", "level": "exploration",
        "runs": {"quick": 800, "thorough": 60000},
        "race_runs": {"quick": 120, "thorough": 6000},
        "chunk": 300, "run_timeout_s": 30,
        "rule": "each run is an episode: one artefact (50% template set with by-value and pointer-passed variables, macros, imports/extends/render, Markdown conversion, stringers; 30% sequential skeleton program with natives, callbacks, defers, package-level state and a per-run Stop/Fatal plan; 20% concurrent program) is built once and run by 2-8 (thorough: up to 32) simulated clients, 1-3 runs each, inputs drawn per run from 1-3 distinct inputs, interleaved by the seeded scheduler at instruction granularity with extra yields inside natives, the writer, the converter and stringers; every run is compared with a solo run of a freshly built copy with the same input. "
                "evaluations = runs (solo references included); distinct_nontrivial = distinct (artefact, context-switch trace) pairs with at least one context switch",
        "components": {"real": ["scriggo.Build / BuildTemplate", "Program.Run / Template.Run from several goroutines on one compiled artefact", "VM, renderer, escapers, initGlobalVariables / initPackageLevelVariables, NativeFunction.argsPool, callable caches", "Go race detector (race-mode runs)"],
                       "stub": ["client goroutines and their scheduling (seeded scheduler)", "native package h, io.Writer, Markdown converter, Stringer values: simulator-owned yield points"]},
        "engine": "vmsim", "design_ref": "DESIGN.md section 5, C10",
        "technique": "deterministic simulation: seeded interleaving of concurrent and repeated runs of one compiled artefact, self-referential oracle (fresh build, solo run), race detector under the serial replayable schedule",
        "level_text": "Seeded search over histories (which client runs which input when) and interleavings of runs sharing one compiled artefact. Oracle: bytes written, printed text, native event sequence, error / panic value and the values of pointer-passed variables of every run equal those of a solo run of a fresh build; no deadlock or step cap; in race mode no race-detector report (goroutines park on private condition variables, so only the interpreter's own synchronisation orders their steps).",
        "level_note": "Self-referential: a defect that affects solo and concurrent runs alike is invisible here (it belongs to other properties). sync.Pool retention and allocation addresses are not observed. Trusts the scheduler's determinism (self-tested on every run).",
        "assumptions": ["natives and stringers used by the artefacts are themselves reentrant", "inputs passed by pointer are not shared between concurrent runs by the caller"],
    },
    "C18": {
        "id": "C18", "pkg": "c18", "test": "TestC18", "level": "exploration",
        "runs": {"quick": 20000, "thorough": 1000000},
        "chunk": 5000,
        "rule": "each run draws a file tree (1-10 files in 0-3 directory levels, names with dots, spaces and non-ASCII letters) whose files reference each other through extends / import / render / render-default with relative, absolute and dot-dot paths (inside and escaping the root), self references, cycles, missing files, occasionally syntactically invalid paths; builds it through a recording file system (plain fs.FS, fs.ReadFileFS, FormatFS, or scriggo.Files behind the recorder; optionally 1-byte reads) fault-free, once more with every escaping reference retargeted to a missing in-root file, and once per file-system call k of the fault-free history with a drawn fault at k (I/O error, not-found lie, short read, data+EOF, zero-byte read). "
                "evaluations = builds; distinct_nontrivial = distinct (tree, fs kind) pairs plus distinct (tree, fs kind, k, fault kind) tuples whose fault fired",
        "components": {"real": ["scriggo.BuildTemplate", "compiler.ParseTemplate, rooted, parseNodeFile (cache and cycle stack), readFileAndFormat", "io/fs.ReadFile", "scriggo.Files (one configuration)"],
                       "stub": ["fs.FS / fs.File / ReadFileFS / FormatFS implementations (recording + fault seam)"]},
        "engine": "buildsim", "design_ref": "DESIGN.md section 5, C18",
        "technique": "deterministic simulation with fault injection: recording and faulty file system under generated reference graphs; invariants over the recorded call history; independent path resolver as reference model",
        "level_text": "Seeded search over reference graphs with the storage fault point enumerated per graph. Invariants over each build's recorded history: every requested name is a valid rooted path; it is the root or the independent (segment-stack) resolution of a reference occurring in a file already delivered in this build, so escaping references never reach the file system; no file is delivered twice; requests <= 1 + files + references. Fault-free: a cycle reachable from the root yields an error; a build with escaping references has the same outcome as with those references retargeted to a missing in-root file.",
        "level_note": "Trusts the independent resolver and the generator's record of which references each file contains. Builds that fail for unrelated reasons (import of a file with text, format rules) still have their call history checked. In-root names beginning with `..` are not generated.",
        "assumptions": ["the file system presents the same content for a name throughout one build"],
    },
    "C04": {
        "id": "C04", "pkg": "c04", "test": "TestC04", "level": "exploration",
        "runs": {"quick": 80000, "thorough": 10000000},
        "chunk": 4000, "run_timeout_s": 20, "mem_limit_mb": 6144,
        "rule": "each run picks a source set (a program or template of the repository's comparison corpus with its .dir companions - programs are given the standard-library subset of the repository's own comparison command, sim/stdpkgs, so that they reach the type checker and the emitter -, a generated template set, file tree with extends/import/render graphs, skeleton program with a sub-package, concurrent program, module of 2-6 packages with a drawn import graph (cycles, diamonds, missing packages), or a soup of delimiters), stores it on the simulated disk (directories are listed by the disk; go.mod present for programs), lets the disk damage one stored file (truncation at a drawn offset, 1-3 byte runs replaced from a delimiter/keyword dictionary, insertion, stale/new splice with another corpus file, duplicated block, short truncation plus delimiter such as `{##`, deleted block; 10% undamaged), optionally injects one I/O fault, draws the token channel capacity (default 20, 0, 1, 3), the FS kind and NoParseShortShowStmt, and builds inside a synctest bubble. "
                "Generated file trees and package graphs are built undamaged half of the time. Workers run under a 6 GB address-space limit and a 256 MB stack limit, so that a build that allocates gigabytes or recurses without bound kills its worker at once (a crash attributed to the run). counters source.<kind> / built.<kind> show how many sources of each kind were offered and how many built. evaluations = builds; distinct_nontrivial = distinct (source, damaged file, damage) triples",
        "components": {"real": ["scriggo.Build / BuildTemplate incl. lexer goroutine, parser, template expansion, type checker, emitter", "Disassemble, UsedVars of successful builds", "io/fs.ReadFile"],
                       "stub": ["storage: in-memory recording fs.FS with damage and I/O faults", "lexer/parser token channel capacity (guarded hook SetSimTokenChanCap)", "goroutine accounting by testing/synctest (quiescence, blocked-goroutine detection)"]},
        "engine": "buildsim", "design_ref": "DESIGN.md section 5, C04",
        "technique": "deterministic simulation with fault injection: simulated disk damaging stored sources (torn writes, flipped bytes, splices, I/O errors), builds inside a synctest bubble observing the parser/lexer goroutine pair, token-channel capacity knob",
        "level_text": "Seeded search over (source, stored-byte damage, I/O fault, channel capacity). Oracle per build: the call returns (a parser/lexer deadlock is seen as a bubble in which everything is blocked), no panic reaches the caller, the process survives (a panic on the lexer goroutine kills the worker: attributed to the run, confirmed and minimised through child processes), no goroutine of the build is alive after it returns, Disassemble/UsedVars of a successful build do not panic; a wall-clock watchdog per worker backs up CPU-bound hangs.",
        "level_note": "The byte-level space is sampled, not enumerated; the statement's `arbitrary bytes` is approached through damage of realistic sources. No particular error is demanded (C03/C21).",
        "assumptions": ["sources up to 64 KiB"],
    },
    "C30": {
        "id": "C30", "pkg": "c30", "test": "TestC30", "level": "exploration",
        "tags": "verif,maporder", "maporder": True, "divergence_is_violation": True,
        "runs": {"quick": 1600, "thorough": 200000},
        "chunk": 1500, "run_timeout_s": 20, "mem_limit_mb": 12288,
        "resource_crash_patterns": ["fatal error: out of memory"],
        "selftest": {"quick": 48, "thorough": 256}, "selftest_procs": {"quick": 3, "thorough": 12},
        "rule": "the worker is built against a scratch copy of /repo in which the maporder tool (go/packages, type-directed) has rewritten every range-over-map of internal/compiler/..., native, ast/..., builtin and the root package into an iteration whose order the simulator decides. Each run draws 1-3 sources (comparison-corpus programs and templates with their .dir companions, generated template sets, skeleton programs with sub-packages, concurrent programs), builds each once under the canonical order (reference), then executes a drawn history of 3-6 interleaved rebuilds under drawn orders (reverse, rotation, seeded shuffle differing at every loop) and token channel capacities. "
                "evaluations = builds; distinct_nontrivial = distinct (source, reference digest, map order, seed, capacity) tuples of successful rebuilds",
        "components": {"real": ["scriggo.Build / BuildTemplate of the rewritten copy (lexer, parser, checker incl. dependency analysis, emitter, builder)", "Disassemble, UsedVars, Format, Run"],
                       "stub": ["Go map iteration order in the compiler: simulator-decided through internal/simmap (scratch copy only; nothing lands in /repo)", "token channel capacity (guarded hook)"]},
        "engine": "detsim", "design_ref": "DESIGN.md section 5, C30",
        "technique": "deterministic simulation: the compiler's only unseedable nondeterminism (map iteration order) put behind a seam by a type-directed source rewrite of a scratch copy; seeded orders and build histories; cross-process digest comparison",
        "level_text": "Seeded search over (sources, build history, map orders). Oracle: every rebuild's disassembly (all packages / whole template), UsedVars, Format and behaviour on fixed inputs are byte-identical to the reference build; whether a source builds at all never varies (error text may). The driver's determinism self-test additionally re-executes a sample of runs in separate processes and compares the per-run digests, which include the reference digests: that is the across-processes half of the statement.",
        "level_note": "Map iterations whose key type has no canonical order (none on the current tree) would be reported in the evidence as uncontrolled. The rewrite is recomputed from /repo's working tree on every run, so new range-over-map sites are covered automatically. internal/runtime is not rewritten (map iteration there is the interpreted program's own semantics).",
        "assumptions": ["go/packages can load /repo offline", "range-over-func (Go 1.23) preserves the loop bodies' semantics", "corpus files containing an integer literal, shift or exponent of 2^27 or more are not used (a declared array that large is allocated at build time, C04's finding; this check builds every source several times in one process); workers run under a 12 GB address-space limit and a run that still dies of memory exhaustion is counted in runs_skipped_for_resource_exhaustion, not judged"],
    },
}
