// Package conc generates concurrent Go programs whose printed output is
// schedule-independent BY CONSTRUCTION and which are data-race-free at the Go
// level: a program is a sequence of self-contained blocks, each of which
// starts goroutines, synchronises with them through channels only, joins all
// of them and prints one line from the main goroutine.
//
// The same source is valid for gc and for Scriggo (no standard library, no
// methods, no generics).
package conc

import (
	"fmt"
	"strings"

	"verifsim/choice"
)

// Prog is a generated program.
type Prog struct {
	Files    map[string]string
	Features []string
	Blocks   []string
}

// Options select generator behaviour.
type Options struct {
	Feature func(name string, num, den int) bool
	// NonTerminating generates programs for the cancellation check: after
	// the blocks, the main goroutine ends in a drawn never-terminating
	// construct (possibly with children that block or spin too).
	NonTerminating bool
	MaxBlocks      int
}

type gen struct {
	s    *choice.Stream
	o    Options
	p    *Prog
	feat map[string]bool
	b    strings.Builder // body of main
	top  strings.Builder // package-level declarations
	n    int             // block counter
	ind  int
}

func (g *gen) feature(name string, num, den int) bool {
	if v, ok := g.feat[name]; ok {
		return v
	}
	var on bool
	if g.o.Feature != nil {
		on = g.o.Feature(name, num, den)
	} else {
		on = g.s.Chance(num, den)
	}
	g.feat[name] = on
	if on {
		g.p.Features = append(g.p.Features, name)
	}
	return on
}

func (g *gen) w(format string, args ...any) {
	line := fmt.Sprintf(format, args...)
	for _, l := range strings.Split(line, "\n") {
		g.b.WriteString(strings.Repeat("\t", g.ind))
		g.b.WriteString(l)
		g.b.WriteString("\n")
	}
}

func (g *gen) t(format string, args ...any) {
	g.top.WriteString(fmt.Sprintf(format, args...))
	g.top.WriteString("\n")
}

// elemType describes a channel element type with the expressions the blocks
// need: conv(i) builds a value from an int expression, step(v) transforms a
// value, fold(acc, v) folds a value into an int accumulator.
type elemType struct {
	name string
	conv func(i string) string
	step func(v string) string
	fold func(v string) string // int-valued expression of v
	feat string
}

func (g *gen) elemTypes() []elemType {
	ts := []elemType{
		{"int", func(i string) string { return i }, func(v string) string { return v + "*2+1" }, func(v string) string { return v }, ""},
		{"string", func(i string) string { return "str(" + i + ")" }, func(v string) string { return v + "+\"x\"" }, func(v string) string { return "len(" + v + ")" }, ""},
		{"float64", func(i string) string { return "float64(" + i + ")" }, func(v string) string { return v + "*1.5" }, func(v string) string { return "int(" + v + "*4)" }, ""},
		{"bool", func(i string) string { return i + "%2 == 0" }, func(v string) string { return "!" + v }, func(v string) string { return "b2i(" + v + ")" }, ""},
		{"int8", func(i string) string { return "int8(" + i + ")" }, func(v string) string { return v + "+3" }, func(v string) string { return "int(" + v + ")" }, "elem-small-int"},
		{"uint16", func(i string) string { return "uint16(" + i + ")" }, func(v string) string { return v + "*3" }, func(v string) string { return "int(" + v + ")" }, "elem-small-int"},
		{"uint64", func(i string) string { return "uint64(" + i + ")" }, func(v string) string { return v + "+7" }, func(v string) string { return "int(" + v + ")" }, "elem-small-int"},
		{"float32", func(i string) string { return "float32(" + i + ")" }, func(v string) string { return v + "+0.5" }, func(v string) string { return "int(" + v + "*2)" }, "elem-small-int"},
		{"[]int", func(i string) string { return "[]int{" + i + ", 1}" }, func(v string) string { return "append(" + v + ", 2)" }, func(v string) string { return "len(" + v + ")+" + v + "[0]" }, "elem-slice"},
		{"*int", func(i string) string { return "newInt(" + i + ")" }, func(v string) string { return "newInt(*" + v + "+1)" }, func(v string) string { return "*" + v }, "elem-pointer"},
		{"interface{}", func(i string) string { return "interface{}(" + i + ")" }, func(v string) string { return "interface{}(" + v + ".(int)+1)" }, func(v string) string { return v + ".(int)" }, "elem-interface"},
		{"func() int", func(i string) string { return "mkf(" + i + ")" }, func(v string) string { return "mkf(" + v + "()+1)" }, func(v string) string { return v + "()" }, "elem-func"},
		{"S", func(i string) string { return "S{" + i + ", \"s\"}" }, func(v string) string { return "S{" + v + ".a+1, " + v + ".b+\"y\"}" }, func(v string) string { return v + ".a+len(" + v + ".b)" }, "elem-struct"},
		{"map[string]int", func(i string) string { return "map[string]int{\"k\": " + i + "}" }, func(v string) string { return "map[string]int{\"k\": " + v + "[\"k\"]+1}" }, func(v string) string { return v + "[\"k\"]" }, "elem-map"},
	}
	var out []elemType
	for _, t := range ts {
		if t.feat == "" || g.feature(t.feat, 1, 2) {
			out = append(out, t)
		}
	}
	return out
}

func (g *gen) elem() elemType {
	ts := g.elemTypes()
	return ts[g.s.N(len(ts))]
}

func (g *gen) buf() string {
	switch g.s.N(4) {
	case 0:
		return ""
	case 1:
		return ", 1"
	case 2:
		return ", 2"
	default:
		return ", 3"
	}
}

// ---- blocks ---------------------------------------------------------------

func (g *gen) pipeline() {
	n := g.n
	et := g.elem()
	stages := g.s.Range(1, 4)
	items := g.s.Range(1, 6)
	g.w("// block %d: pipeline of %d stages over %s", n, stages, et.name)
	for k := 0; k <= stages; k++ {
		g.w("p%d_%d := make(chan %s%s)", n, k, et.name, g.buf())
	}
	g.w("go func() {")
	g.w("\tfor i := 0; i < %d; i++ {", items)
	g.w("\t\tp%d_0 <- %s", n, et.conv("i"))
	g.w("\t}")
	g.w("\tclose(p%d_0)", n)
	g.w("}()")
	for k := 0; k < stages; k++ {
		if g.s.Chance(1, 3) {
			// a stage as a named function started with arguments
			g.w("go stage%d_%d(p%d_%d, p%d_%d)", n, k, n, k, n, k+1)
			g.t("func stage%d_%d(in chan %s, out chan %s) {\n\tfor v := range in {\n\t\tout <- %s\n\t}\n\tclose(out)\n}\n", n, k, et.name, et.name, et.step("v"))
		} else {
			g.w("go func() {")
			g.w("\tfor v := range p%d_%d {", n, k)
			g.w("\t\tp%d_%d <- %s", n, k+1, et.step("v"))
			g.w("\t}")
			g.w("\tclose(p%d_%d)", n, k+1)
			g.w("}()")
		}
	}
	g.w("acc%d := 0", n)
	g.w("for v := range p%d_%d {", n, stages)
	g.w("\tacc%d = acc%d*3 + %s", n, n, et.fold("v"))
	g.w("}")
	g.w("println(\"B%d pipeline\", acc%d)", n, n)
}

func (g *gen) fan() {
	n := g.n
	et := g.elem()
	workers := g.s.Range(1, 5)
	jobs := g.s.Range(1, 8)
	g.w("// block %d: fan-out to %d workers, fan-in", n, workers)
	g.w("jobs%d := make(chan %s%s)", n, et.name, g.buf())
	g.w("res%d := make(chan int%s)", n, g.buf())
	g.w("fin%d := make(chan bool%s)", n, g.buf())
	g.w("for w := 0; w < %d; w++ {", workers)
	if g.s.Bool() {
		g.w("\tgo func(id int) {")
		g.w("\t\tfor v := range jobs%d {", n)
		g.w("\t\t\tres%d <- %s", n, et.fold(et.step("v")))
		g.w("\t\t}")
		g.w("\t\tfin%d <- id >= 0", n)
		g.w("\t}(w)")
	} else {
		g.w("\tgo worker%d(w, jobs%d, res%d, fin%d)", n, n, n, n)
		g.t("func worker%d(id int, jobs chan %s, res chan int, fin chan bool) {\n\tfor v := range jobs {\n\t\tres <- %s\n\t}\n\tfin <- id >= 0\n}\n", n, et.name, et.fold(et.step("v")))
	}
	g.w("}")
	g.w("go func() {")
	g.w("\tfor i := 0; i < %d; i++ {", jobs)
	g.w("\t\tjobs%d <- %s", n, et.conv("i"))
	g.w("\t}")
	g.w("\tclose(jobs%d)", n)
	g.w("}()")
	g.w("sum%d := 0", n)
	g.w("for i := 0; i < %d; i++ {", jobs)
	g.w("\tsum%d += <-res%d", n, n)
	g.w("}")
	g.w("for w := 0; w < %d; w++ {", workers)
	g.w("\t<-fin%d", n)
	g.w("}")
	g.w("println(\"B%d fan\", sum%d)", n, n)
}

func (g *gen) pingpong() {
	n := g.n
	rounds := g.s.Range(1, 5)
	g.w("// block %d: ping-pong, %d rounds", n, rounds)
	g.w("ping%d := make(chan int)", n)
	g.w("pong%d := make(chan int)", n)
	g.w("go func() {")
	g.w("\tfor v := range ping%d {", n)
	g.w("\t\tpong%d <- v + 100", n)
	g.w("\t}")
	g.w("\tclose(pong%d)", n)
	g.w("}()")
	g.w("for i := 0; i < %d; i++ {", rounds)
	g.w("\tping%d <- i", n)
	g.w("\tprintln(\"B%d pong\", <-pong%d)", n, n)
	g.w("}")
	g.w("close(ping%d)", n)
	g.w("_, ok%d := <-pong%d", n, n)
	g.w("println(\"B%d closed\", !ok%d)", n, n)
}

func (g *gen) mutex() {
	n := g.n
	workers := g.s.Range(2, 5)
	incs := g.s.Range(1, 4)
	g.w("// block %d: mutex by buffered channel, %d goroutines", n, workers)
	g.w("sem%d := make(chan int, 1)", n)
	g.w("fin%d := make(chan int)", n)
	g.w("counter%d := 0", n)
	g.w("for w := 0; w < %d; w++ {", workers)
	g.w("\tgo func(id int) {")
	g.w("\t\tfor i := 0; i < %d; i++ {", incs)
	g.w("\t\t\tsem%d <- id", n)
	g.w("\t\t\tcounter%d += id + 1", n)
	g.w("\t\t\t<-sem%d", n)
	g.w("\t\t}")
	g.w("\t\tfin%d <- id", n)
	g.w("\t}(w)")
	g.w("}")
	g.w("ids%d := 0", n)
	g.w("for w := 0; w < %d; w++ {", workers)
	g.w("\tids%d += <-fin%d", n, n)
	g.w("}")
	g.w("println(\"B%d mutex\", counter%d, ids%d)", n, n, n)
}

// selectRecv: several buffered channels already filled; every iteration has
// several simultaneously ready cases whose effects commute.
func (g *gen) selectRecv() {
	n := g.n
	k := g.s.Range(2, 4)
	ets := make([]elemType, k)
	g.w("// block %d: select over %d simultaneously ready receive cases", n, k)
	total := 0
	for i := 0; i < k; i++ {
		ets[i] = g.elem()
		c := g.s.Range(1, 3)
		total += c
		g.w("sr%d_%d := make(chan %s, %d)", n, i, ets[i].name, c)
		for j := 0; j < c; j++ {
			g.w("sr%d_%d <- %s", n, i, ets[i].conv(fmt.Sprint(10*i+j)))
		}
		g.w("a%d_%d := 0", n, i)
	}
	withNil := g.s.Chance(1, 3)
	if withNil {
		g.w("var nilc%d chan int", n)
	}
	g.w("for i := 0; i < %d; i++ {", total)
	g.w("\tselect {")
	for i := 0; i < k; i++ {
		if g.feature("select-shared-var", 1, 3) {
			// The same variable name declared in several cases.
			g.w("\tcase v := <-sr%d_%d:", n, i)
			g.w("\t\ta%d_%d = a%d_%d*5 + %s", n, i, n, i, ets[i].fold("v"))
		} else {
			g.w("\tcase v%d := <-sr%d_%d:", i, n, i)
			g.w("\t\ta%d_%d = a%d_%d*5 + %s", n, i, n, i, ets[i].fold(fmt.Sprintf("v%d", i)))
		}
	}
	if withNil {
		g.w("\tcase <-nilc%d:", n)
		g.w("\t\tprintln(\"never\")")
	}
	g.w("\t}")
	g.w("}")
	// now all empty: default must be chosen
	g.w("select {")
	g.w("case <-sr%d_0:", n)
	g.w("\tprintln(\"never\")")
	g.w("default:")
	g.w("\ta%d_0 += 1000", n)
	g.w("}")
	args := ""
	for i := 0; i < k; i++ {
		args += fmt.Sprintf(", a%d_%d", n, i)
	}
	g.w("println(\"B%d selrecv\"%s)", n, args)
}

// selectSend: several send cases ready at once; each channel always receives
// its own constant, so the contents do not depend on the choice.
func (g *gen) selectSend() {
	n := g.n
	k := g.s.Range(2, 3)
	ets := make([]elemType, k)
	caps := make([]int, k)
	total := 0
	g.w("// block %d: select over %d simultaneously ready send cases", n, k)
	same := g.s.Bool()
	for i := 0; i < k; i++ {
		if same && i > 0 {
			ets[i] = ets[0]
		} else {
			ets[i] = g.elem()
		}
		caps[i] = g.s.Range(1, 2)
		total += caps[i]
		g.w("ss%d_%d := make(chan %s, %d)", n, i, ets[i].name, caps[i])
	}
	g.w("for i := 0; i < %d; i++ {", total)
	g.w("\tselect {")
	for i := 0; i < k; i++ {
		g.w("\tcase ss%d_%d <- %s:", n, i, ets[i].conv(fmt.Sprint(7+i)))
	}
	g.w("\t}")
	g.w("}")
	args := ""
	for i := 0; i < k; i++ {
		g.w("close(ss%d_%d)", n, i)
		g.w("t%d_%d := 0", n, i)
		g.w("for v := range ss%d_%d {", n, i)
		g.w("\tt%d_%d = t%d_%d*7 + %s", n, i, n, i, ets[i].fold("v"))
		g.w("}")
		args += fmt.Sprintf(", t%d_%d", n, i)
	}
	g.w("println(\"B%d selsend\"%s)", n, args)
}

// selectLoop: a consumer goroutine selecting between a data channel and a
// quit channel, while main produces.
func (g *gen) selectLoop() {
	n := g.n
	items := g.s.Range(1, 5)
	g.w("// block %d: select loop with quit channel", n)
	g.w("data%d := make(chan int%s)", n, g.buf())
	g.w("quit%d := make(chan bool)", n)
	g.w("out%d := make(chan int)", n)
	g.w("all%d := make(chan bool)", n)
	g.w("go func() {")
	g.w("\tsum, cnt := 0, 0")
	g.w("\tfor {")
	g.w("\t\tselect {")
	g.w("\t\tcase v := <-data%d:", n)
	g.w("\t\t\tsum += v")
	g.w("\t\t\tcnt++")
	g.w("\t\t\tif cnt == %d {", items)
	g.w("\t\t\t\tall%d <- true", n)
	g.w("\t\t\t}")
	g.w("\t\tcase <-quit%d:", n)
	g.w("\t\t\tout%d <- sum", n)
	g.w("\t\t\treturn")
	g.w("\t\t}")
	g.w("\t}")
	g.w("}()")
	g.w("go func() {")
	g.w("\tfor i := 1; i <= %d; i++ {", items)
	g.w("\t\tselect {")
	g.w("\t\tcase data%d <- i * i:", n)
	g.w("\t\t}")
	g.w("\t}")
	g.w("}()")
	// the consumer reports when it has received every item (no busy
	// waiting: the program must not rely on a fair scheduler)
	g.w("<-all%d", n)
	g.w("quit%d <- true", n)
	g.w("println(\"B%d selloop\", <-out%d)", n, n)
}

// goArgs: a goroutine started with many arguments of mixed kinds, optionally
// deep in the call stack with padding locals.
func (g *gen) goArgs() {
	n := g.n
	g.w("// block %d: go statement with mixed arguments", n)
	type arg struct{ typ, val, sum string }
	pool := []arg{
		{"int", "%d", "%s"},
		{"string", "\"s%d\"", "len(%s)"},
		{"float64", "%d.5", "int(%s*2)"},
		{"bool", "%d%2 == 1", "b2i(%s)"},
		{"[]int", "[]int{%d, 2}", "%s[0]+len(%s)"},
		{"int8", "int8(%d)", "int(%s)"},
		{"uint32", "uint32(%d)", "int(%s)"},
		{"S", "S{%d, \"q\"}", "%s.a+len(%s.b)"},
	}
	na := g.s.Range(0, 12)
	var params, vals, sums []string
	for i := 0; i < na; i++ {
		a := pool[g.s.N(len(pool))]
		name := fmt.Sprintf("x%d", i)
		params = append(params, name+" "+a.typ)
		vals = append(vals, strings.ReplaceAll(a.val, "%d", fmt.Sprint(3+i)))
		sums = append(sums, strings.ReplaceAll(a.sum, "%s", name))
	}
	sum := "0"
	for _, s := range sums {
		sum += "*3 + " + s
		sum = "(" + sum + ")"
	}
	// The started function may declare results (discarded by the go
	// statement): in the callee's frame the result registers precede the
	// parameters of the same kind.
	results, returns := "", ""
	if g.feature("go-func-results", 1, 2) {
		rpool := [][2]string{{"int", "7"}, {"string", "\"r\""}, {"float64", "1.5"}, {"bool", "true"}, {"[]int", "nil"}, {"chan int", "nil"}, {"S", "S{}"}}
		var rt, rv []string
		for i, nr := 0, g.s.Range(1, 3); i < nr; i++ {
			r := rpool[g.s.N(len(rpool))]
			rt = append(rt, r[0])
			rv = append(rv, r[1])
		}
		results = " (" + strings.Join(rt, ", ") + ")"
		returns = "\treturn " + strings.Join(rv, ", ") + "\n"
	}
	g.t("func goargs%d(%sres chan int)%s {\n\tres <- %s\n%s}\n", n, joinComma(params), results, sum, returns)
	g.w("ga%d := make(chan int%s)", n, g.buf())
	call := fmt.Sprintf("goargs%d(%sga%d)", n, joinComma(vals), n)
	depth := 0
	if g.feature("deep-spawn", 1, 3) {
		depth = g.s.Range(1, 80)
	}
	kind := g.s.N(4)
	switch {
	case depth > 0:
		pad := g.s.Range(0, 8)
		var pdecl, puse strings.Builder
		for i := 0; i < pad; i++ {
			fmt.Fprintf(&pdecl, "\tpad%d := d + %d\n", i, i)
			fmt.Fprintf(&puse, " + pad%d", i)
		}
		g.t("func deep%d(d int, res chan int) int {\n%s\tif d > 0 {\n\t\treturn deep%d(d-1, res)%s\n\t}\n\tgo goargs%d(%sres)\n\treturn 0%s\n}\n", n, pdecl.String(), n, puse.String(), n, joinComma(vals), puse.String())
		g.w("dv%d := deep%d(%d, ga%d)", n, n, depth, n)
		g.w("println(\"B%d goargs\", <-ga%d, dv%d)", n, n, n)
		return
	case kind == 1:
		g.w("fv%d := goargs%d", n, n)
		g.w("go fv%d(%sga%d)", n, joinComma(vals), n)
	case kind == 2 && g.feature("go-in-defer", 1, 2):
		g.w("func() {")
		g.w("\tdefer func() {")
		g.w("\t\tgo %s", call)
		g.w("\t}()")
		g.w("}()")
	case kind == 3:
		g.w("go func() {")
		g.w("\t%s", call)
		g.w("}()")
	default:
		g.w("go %s", call)
	}
	g.w("println(\"B%d goargs\", <-ga%d)", n, n)
}

func joinComma(l []string) string {
	if len(l) == 0 {
		return ""
	}
	return strings.Join(l, ", ") + ", "
}

// chanOfChan: request/response through a channel of channels.
func (g *gen) chanOfChan() {
	n := g.n
	reqs := g.s.Range(1, 4)
	g.w("// block %d: channel of channels, %d requests", n, reqs)
	g.w("req%d := make(chan chan int%s)", n, g.buf())
	g.w("go func() {")
	g.w("\tk := 0")
	g.w("\tfor r := range req%d {", n)
	g.w("\t\tk++")
	g.w("\t\tr <- k * 11")
	g.w("\t}")
	g.w("}()")
	g.w("tot%d := 0", n)
	g.w("for i := 0; i < %d; i++ {", reqs)
	g.w("\tr := make(chan int)")
	g.w("\treq%d <- r", n)
	g.w("\ttot%d += <-r", n)
	g.w("}")
	g.w("close(req%d)", n)
	g.w("println(\"B%d chanchan\", tot%d)", n, n)
}

// waitGroup: N goroutines fill distinct slice elements, a counting channel
// joins them, the last one closes.
func (g *gen) waitGroup() {
	n := g.n
	workers := g.s.Range(1, 6)
	g.w("// block %d: wait-group by counting channel, %d goroutines", n, workers)
	g.w("slots%d := make([]int, %d)", n, workers)
	g.w("wg%d := make(chan int%s)", n, g.buf())
	g.w("for w := 0; w < %d; w++ {", workers)
	g.w("\tgo func(i int) {")
	g.w("\t\tslots%d[i] = i*i + 1", n)
	g.w("\t\twg%d <- 1", n)
	g.w("\t}(w)")
	g.w("}")
	g.w("for w := 0; w < %d; w++ {", workers)
	g.w("\t<-wg%d", n)
	g.w("}")
	g.w("s%d := 0", n)
	g.w("for _, v := range slots%d {", n)
	g.w("\ts%d = s%d*2 + v", n, n)
	g.w("}")
	g.w("println(\"B%d wg\", s%d)", n, n)
}

// lastCloses: N producers; a closer goroutine closes the channel after all
// of them signalled; main ranges and folds commutatively.
func (g *gen) lastCloses() {
	n := g.n
	prods := g.s.Range(1, 4)
	per := g.s.Range(1, 3)
	g.w("// block %d: %d producers, the closer closes after the last", n, prods)
	g.w("lc%d := make(chan int%s)", n, g.buf())
	g.w("pd%d := make(chan bool%s)", n, g.buf())
	g.w("for p := 0; p < %d; p++ {", prods)
	g.w("\tgo func(id int) {")
	g.w("\t\tfor i := 0; i < %d; i++ {", per)
	g.w("\t\t\tlc%d <- id*10 + i", n)
	g.w("\t\t}")
	g.w("\t\tpd%d <- true", n)
	g.w("\t}(p)")
	g.w("}")
	g.w("go func() {")
	g.w("\tfor p := 0; p < %d; p++ {", prods)
	g.w("\t\t<-pd%d", n)
	g.w("\t}")
	g.w("\tclose(lc%d)", n)
	g.w("}()")
	g.w("ls%d, lcnt%d := 0, 0", n, n)
	g.w("for v := range lc%d {", n)
	g.w("\tls%d += v", n)
	g.w("\tlcnt%d++", n)
	g.w("}")
	g.w("println(\"B%d lastcloses\", ls%d, lcnt%d)", n, n, n)
}

// selectClosed: receive cases of a select on channels that have been closed
// after some values were sent: the value received from a closed channel is
// the zero value of the element type (and ok is false), also when the same
// goroutine received other values through a select before.
func (g *gen) selectClosed() {
	n := g.n
	et := g.elem()
	k := g.s.Range(1, 3)
	g.w("// block %d: select receiving from a closed channel of %s", n, et.name)
	g.w("sc%d := make(chan %s, %d)", n, et.name, k)
	for j := 0; j < k; j++ {
		g.w("sc%d <- %s", n, et.conv(fmt.Sprint(3+2*j)))
	}
	g.w("close(sc%d)", n)
	g.w("var scn%d chan int", n)
	g.w("sct%d, scz%d, sck%d := 0, 0, 0", n, n, n)
	g.w("for sck%d < %d {", n, k+2)
	g.w("\tselect {")
	g.w("\tcase v, ok := <-sc%d:", n)
	g.w("\t\tsck%d++", n)
	switch et.name {
	case "int", "int8", "uint16", "uint64", "float64", "float32", "string", "bool", "[]int", "map[string]int", "S":
		// the fold of the zero value is well defined for these
		foldZero := et.fold("v")
		if et.name == "[]int" {
			foldZero = "len(v)"
		}
		g.w("\t\tif ok {")
		g.w("\t\t\tsct%d = sct%d*7 + %s", n, n, et.fold("v"))
		g.w("\t\t} else {")
		g.w("\t\t\tscz%d = scz%d*7 + 1 + %s", n, n, foldZero)
		g.w("\t\t}")
	case "func() int":
		// (comparing a func value with nil is wrong in Scriggo also in
		// sequential code - `var f func(); f == nil` is false - which is
		// outside this property: only ok is used)
		g.w("\t\tif ok {")
		g.w("\t\t\tsct%d = sct%d*7 + %s", n, n, et.fold("v"))
		g.w("\t\t} else {")
		g.w("\t\t\tscz%d += 100", n)
		g.w("\t\t}")
	default:
		// pointer, interface: the zero value is nil
		g.w("\t\tif ok {")
		g.w("\t\t\tsct%d = sct%d*7 + %s", n, n, et.fold("v"))
		g.w("\t\t} else if v == nil {")
		g.w("\t\t\tscz%d += 100", n)
		g.w("\t\t} else {")
		g.w("\t\t\tscz%d += 1", n)
		g.w("\t\t}")
	}
	g.w("\tcase w := <-scn%d:", n)
	g.w("\t\tsct%d += w", n)
	g.w("\t}")
	g.w("}")
	g.w("println(\"B%d selclosed\", sct%d, scz%d)", n, n, n)
}

// globals: goroutines started on package-level functions that read and write
// package-level variables, from main, from a non-capturing literal and from a
// function literal that captures variables (the goroutine's variable table
// must be the package's, not the spawning closure's). The goroutines are
// joined one at a time, so the program is race free.
func (g *gen) globals() {
	n := g.n
	k := g.s.Range(1, 4)
	g.w("// block %d: package-level state updated by goroutines started from closures", n)
	g.t("var gtot%d int\nvar gname%d = \"g\"\n\nfunc addg%d(v int, done chan bool) {\n\tgtot%d += v\n\tgname%d += \"x\"\n\tdone <- true\n}\n", n, n, n, n, n)
	g.w("gd%d := make(chan bool%s)", n, g.buf())
	g.w("base%d := %d", n, g.s.Range(1, 9))
	g.w("label%d := \"L\"", n)
	g.w("_ = gd%d", n)
	for i := 0; i < k; i++ {
		switch g.s.N(4) {
		case 0:
			g.w("go addg%d(%d, gd%d)", n, i+1, n)
			g.w("<-gd%d", n)
		case 1:
			// a literal that captures variables of main
			g.w("func() {")
			g.w("\tlabel%d += \"c\"", n)
			g.w("\tgo addg%d(base%d+%d, gd%d)", n, n, i, n)
			g.w("\t<-gd%d", n)
			g.w("}()")
		case 2:
			// a literal that captures nothing
			g.w("func() {")
			g.w("\tdn := make(chan bool)")
			g.w("\tgo addg%d(%d, dn)", n, 10+i)
			g.w("\t<-dn")
			g.w("}()")
		case 3:
			// nested literals, the inner one captures
			g.w("func() {")
			g.w("\tinner := base%d * 2", n)
			g.w("\tfunc() {")
			g.w("\t\tgo addg%d(inner, gd%d)", n, n)
			g.w("\t\t<-gd%d", n)
			g.w("\t}()")
			g.w("}()")
		}
	}
	g.w("println(\"B%d globals\", gtot%d, gname%d, label%d, base%d)", n, n, n, n, n)
}

// nonTerminating appends the never-ending tail used by the cancellation
// check. It returns a short name of the construct.
func (g *gen) nonTerminating() string {
	n := g.n
	// Optional children that block or spin forever.
	if g.s.Bool() {
		k := g.s.Range(1, 3)
		g.w("nt%d := make(chan int)", n)
		for i := 0; i < k; i++ {
			switch g.s.N(5) {
			case 0:
				g.w("go func() {\n\tfor {\n\t}\n}()")
			case 1:
				g.w("go func() {\n\tnt%d <- 1\n}()", n)
			case 2:
				g.w("go func() {\n\t<-nt%d\n}()", n)
			case 3:
				g.w("go func() {\n\tselect {}\n}()")
			case 4:
				g.w("go func() {\n\tx := 0\n\tfor {\n\t\tx = spin(x)\n\t}\n}()")
			}
		}
		g.w("_ = nt%d", n)
	}
	g.w("blk%d := make(chan int)", n)
	g.w("blk%db := make(chan int)", n)
	g.w("_, _ = blk%d, blk%db", n, n)
	kind := []string{"loop", "loop-calls", "recursion", "send", "recv", "select", "select-default", "select-empty", "range", "nested-loops", "child-work",
		"panic-deferred-loop", "panic-recovered-deferred-recv", "runtime-panic-recovered-deferred-loop", "panic-deferred-select",
		"drain-race", "fill-race"}[g.s.N(17)]
	switch kind {
	case "drain-race":
		// several receivers (main among them) drain a buffered channel that
		// nobody refills: every one of them ends up blocked in a receive
		c := g.s.Range(2, 6)
		g.w("dr%d := make(chan int, %d)", n, c)
		g.w("for i := 0; i < %d; i++ {\n\tdr%d <- i\n}", c, n)
		for j, k := 0, g.s.Range(1, 3); j < k; j++ {
			g.w("go func() {\n\tfor {\n\t\t<-dr%d\n\t}\n}()", n)
		}
		g.w("for {\n\t<-dr%d\n}", n)
	case "fill-race":
		// several senders (main among them) fill a buffered channel that
		// nobody drains
		c := g.s.Range(1, 4)
		g.w("fr%d := make(chan int, %d)", n, c)
		for j, k := 0, g.s.Range(1, 3); j < k; j++ {
			g.w("go func() {\n\tfor {\n\t\tfr%d <- 1\n\t}\n}()", n)
		}
		g.w("for {\n\tfr%d <- 2\n}", n)
	case "panic-deferred-loop":
		// a deferred function that never returns runs while the panic is in flight
		g.w("defer func() {\n\tfor {\n\t}\n}()\npanic(\"boom\")")
	case "panic-recovered-deferred-recv":
		g.w("defer func() {\n\trecover()\n\t<-blk%d\n}()\npanic(\"boom\")", n)
	case "runtime-panic-recovered-deferred-loop":
		g.w("defer func() {\n\trecover()\n\tx := 0\n\tfor {\n\t\tx = spin(x)\n\t}\n}()\nvar nilm map[string]int\nnilm[\"a\"] = 1")
	case "panic-deferred-select":
		g.w("defer func() {\n\tselect {\n\tcase <-blk%d:\n\tcase blk%db <- 1:\n\t}\n}()\npanic(blk%d)", n, n, n)
	case "loop":
		g.w("for {\n}")
	case "loop-calls":
		g.w("x := 0\nfor {\n\tx = spin(x)\n}")
	case "recursion":
		g.w("rec(0)")
	case "send":
		g.w("blk%d <- 1", n)
	case "recv":
		g.w("<-blk%d", n)
	case "select":
		g.w("select {\ncase <-blk%d:\ncase blk%db <- 2:\n}", n, n)
	case "select-default":
		g.w("for {\n\tselect {\n\tcase <-blk%d:\n\tdefault:\n\t}\n}", n)
	case "select-empty":
		g.w("select {}")
	case "range":
		g.w("for v := range blk%d {\n\t_ = v\n}", n)
	case "nested-loops":
		g.w("for i := 0; ; i++ {\n\tfor j := 0; j < 3; j++ {\n\t\t_ = spin(j)\n\t}\n}")
	case "child-work":
		// main waits for a child that never finishes
		g.w("go func() {\n\tfor {\n\t}\n}()\n<-blk%d", n)
	}
	return kind
}

const prelude = `package main

type S struct {
	a int
	b string
}

func str(i int) string {
	s := "v"
	for ; i > 0; i-- {
		s += "i"
	}
	return s
}

func b2i(b bool) int {
	if b {
		return 1
	}
	return 0
}

func newInt(i int) *int { return &i }

func mkf(i int) func() int { return func() int { return i } }

func spin(x int) int { return x + 1 }

func rec(d int) int {
	for i := 0; i < 3; i++ {
		d += i
	}
	return rec(d%7) + 1
}

// yield lets other goroutines run (a channel handshake with a helper).
func yield() {
	c := make(chan int)
	go func() { c <- 1 }()
	<-c
}

`

// Gen generates a program.
func Gen(s *choice.Stream, o Options) *Prog {
	if o.MaxBlocks == 0 {
		o.MaxBlocks = 4
	}
	p := &Prog{Files: map[string]string{}}
	g := &gen{s: s, o: o, p: p, feat: map[string]bool{}, ind: 1}
	nb := s.Range(1, o.MaxBlocks)
	if o.NonTerminating {
		nb = s.Range(0, 2)
	}
	for i := 0; i < nb; i++ {
		g.n = i
		var name string
		switch s.Pick(3, 3, 2, 2, 3, 3, 2, 3, 2, 2, 2, 3, 3) {
		case 12:
			name = "selectClosed"
			g.selectClosed()
		case 11:
			name = "globals"
			g.globals()
		case 0:
			name = "pipeline"
			g.pipeline()
		case 1:
			name = "fan"
			g.fan()
		case 2:
			name = "pingpong"
			g.pingpong()
		case 3:
			name = "mutex"
			g.mutex()
		case 4:
			name = "selectRecv"
			g.selectRecv()
		case 5:
			name = "selectSend"
			if g.feature("select-send-multi", 3, 4) {
				g.selectSend()
			} else {
				g.pingpong()
			}
		case 6:
			name = "selectLoop"
			g.selectLoop()
		case 7:
			name = "goArgs"
			g.goArgs()
		case 8:
			name = "chanOfChan"
			g.chanOfChan()
		case 9:
			name = "waitGroup"
			g.waitGroup()
		case 10:
			name = "lastCloses"
			g.lastCloses()
		}
		p.Blocks = append(p.Blocks, name)
	}
	if o.NonTerminating {
		g.n = nb
		p.Blocks = append(p.Blocks, "nt:"+g.nonTerminating())
	}
	var src strings.Builder
	src.WriteString(prelude)
	src.WriteString(g.top.String())
	src.WriteString("func main() {\n")
	src.WriteString(g.b.String())
	if !o.NonTerminating {
		src.WriteString("\tprintln(\"end\")\n")
	}
	src.WriteString("}\n")
	p.Files["main.go"] = src.String()
	return p
}
