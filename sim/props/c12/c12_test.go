// C12 — Run reports Stop, Fatal and unrecovered panics exactly as documented.
//
// Seam: the native-call boundary (the interpreted code's "system call"
// interface). A generated skeleton program is run fault-free, recording the
// sequence of h.Point calls (length W); then for EVERY k in 1..W the k-th call
// delivers Stop(E), Fatal(v) or a host panic. Reference for panics (explicit
// and host-delivered): the same source compiled by gc with the same fault plan.
package c12

import (
	"errors"
	"fmt"
	"os"
	"path/filepath"
	"strconv"
	"strings"
	"sync"
	"testing"
	"time"

	"verifsim/gcref"
	"verifsim/gen/skel"
	"verifsim/harness"

	"github.com/open2b/scriggo"
	"github.com/open2b/scriggo/native"
)

// collapseRuns keeps the earliest element of every run of panics with the
// same printed value.
func collapseRuns(chain []string) []string {
	var out []string
	prev := ""
	for i, e := range chain {
		v := strings.TrimSuffix(e, " [recovered]")
		if i > 0 && v == prev {
			continue
		}
		out = append(out, e)
		prev = v
	}
	return out
}

func TestC12(t *testing.T) {
	harness.Main(t, harness.Check{Prop: "C12", Exec: exec, Prepare: prepare, ShrinkBudget: 60})
}

// ---- gc reference -------------------------------------------------------

var (
	mu      sync.Mutex
	bundles []*gcref.Bundle
	gcCache = map[string]gcref.Result{} // key|k|kind
	nbundle int
)

func scratch() string {
	d := os.Getenv("VERIF_SCRATCH")
	if d == "" {
		d = os.TempDir()
	}
	return filepath.Join(d, fmt.Sprintf("gc-c12-%d", os.Getpid()))
}

func bundleFor(p gcref.Prog) *gcref.Bundle {
	key := p.Key()
	for _, b := range bundles {
		if b.Has(key) {
			return b
		}
	}
	nbundle++
	b, err := gcref.Build(filepath.Join(scratch(), fmt.Sprintf("b%d", nbundle)), map[string]string{"h/h.go": skel.GcH}, []gcref.Prog{p}, false)
	if err != nil {
		harness.Fail("gc cannot build a generated program (generator bug): %v\n%s", err, p.Files["main.go"])
	}
	bundles = append(bundles, b)
	return b
}

// panicKind is a pure function of the program and the fault point.
func panicKind(key string, k int) string {
	return []string{"ps", "pi", "pe"}[(int(key[0])+int(key[1])+k)%3]
}

func gcRun(p gcref.Prog, k int, kind string) gcref.Result {
	ck := fmt.Sprintf("%s|%d|%s", p.Key(), k, kind)
	mu.Lock()
	r, ok := gcCache[ck]
	mu.Unlock()
	if ok {
		return r
	}
	b := bundleFor(p)
	r = b.Run(p.Key(), []string{strconv.Itoa(k), kind}, nil, 2*time.Minute)
	mu.Lock()
	gcCache[ck] = r
	mu.Unlock()
	return r
}

func prepare(mk func(i int, mask map[string]bool) *harness.Run, from, to int, masks []map[string]bool) {
	var progs []gcref.Prog
	seen := map[string]bool{}
	for i := from; i < to; i++ {
		for _, m := range masks {
			r := mk(i, m)
			if r.Feature("template", 1, 4) {
				continue // templates have no gc reference
			}
			p := skel.Gen(r.S, skel.Options{Feature: r.Feature})
			gp := gcref.Prog{Files: p.Files}
			if !seen[gp.Key()] {
				seen[gp.Key()] = true
				progs = append(progs, gp)
			}
		}
	}
	nbundle++
	b, err := gcref.Build(filepath.Join(scratch(), fmt.Sprintf("b%d", nbundle)), map[string]string{"h/h.go": skel.GcH}, progs, false)
	if err != nil {
		harness.Fail("gc cannot build generated programs (generator bug): %v", err)
	}
	bundles = append(bundles, b)
	// Fault-free runs, then every fault point.
	var jobs []gcref.Job
	for _, p := range progs {
		jobs = append(jobs, gcref.Job{Key: p.Key(), Args: []string{"0", "none"}})
	}
	res := b.RunMany(jobs, 4, 2*time.Minute)
	var jobs2 []gcref.Job
	var keys2 []string
	for i, p := range progs {
		gcCache[fmt.Sprintf("%s|0|none", p.Key())] = res[i]
		ev, _ := splitGc(res[i].Stderr)
		w := 0
		for _, e := range ev {
			if strings.HasPrefix(e, "P") {
				w++
			}
		}
		if w > maxPoints {
			w = maxPoints
		}
		for k := 1; k <= w; k++ {
			kind := panicKind(p.Key(), k)
			jobs2 = append(jobs2, gcref.Job{Key: p.Key(), Args: []string{strconv.Itoa(k), kind}})
			keys2 = append(keys2, fmt.Sprintf("%s|%d|%s", p.Key(), k, kind))
		}
	}
	res2 := b.RunMany(jobs2, 4, 2*time.Minute)
	for i, k := range keys2 {
		gcCache[k] = res2[i]
	}
}

const maxPoints = 60

// splitGc separates the event lines from the crash report.
func splitGc(stderr string) (events []string, crash string) {
	lines := strings.Split(stderr, "\n")
	for i, l := range lines {
		if strings.HasPrefix(l, "panic: ") || strings.HasPrefix(l, "fatal error: ") {
			return events, strings.Join(lines[i:], "\n")
		}
		if l != "" {
			events = append(events, l)
		}
	}
	return events, ""
}

// ---- the simulated native package ---------------------------------------

type plan struct {
	k    int    // 1-based Point call index, 0 = none
	kind string // stop, fatal, ps, pi, pe
}

type recorder struct {
	events []string
	count  int
	plan   plan
	stopE  error
	fatalV any
	line   strings.Builder
	fired  bool
}

func (rec *recorder) print(v any) {
	s, ok := v.(string)
	if !ok {
		s = fmt.Sprint(v)
	}
	rec.line.WriteString(s)
	if strings.HasSuffix(s, "\n") {
		rec.events = append(rec.events, strings.TrimSuffix(rec.line.String(), "\n"))
		rec.line.Reset()
	}
}

func fmtVal(v any) string {
	switch v := v.(type) {
	case nil:
		return "nil"
	case string:
		return "s:" + v
	case int:
		return "i:" + strconv.Itoa(v)
	case error:
		return "e:" + v.Error()
	}
	return fmt.Sprintf("?%T", v)
}

func hPackage(rec *recorder) native.Package {
	return native.Package{Name: "h", Declarations: native.Declarations{
		"Point": func(env native.Env, id int) {
			rec.count++
			rec.events = append(rec.events, "P"+strconv.Itoa(id))
			if rec.count == rec.plan.k {
				rec.fired = true
				switch rec.plan.kind {
				case "stop":
					env.Stop(rec.stopE)
				case "fatal":
					env.Fatal(rec.fatalV)
				case "ps":
					panic("hp" + strconv.Itoa(id))
				case "pi":
					panic(100000 + id)
				case "pe":
					panic(errors.New("he" + strconv.Itoa(id)))
				}
			}
		},
		"Rec": func(id int, v any) { rec.events = append(rec.events, "R"+strconv.Itoa(id)+":"+fmtVal(v)) },
		"Call": func(id int, f func()) {
			rec.events = append(rec.events, "C"+strconv.Itoa(id))
			f()
			rec.events = append(rec.events, "c"+strconv.Itoa(id))
		},
		"Err": func(id int) error { return errors.New("e" + strconv.Itoa(id)) },
		"Yes": func(id int) bool { return true },
	}}
}

type mapFS map[string]string

type result struct {
	err      error
	panicked bool
	pval     any
	stack    string
	events   []string
}

func run(prog *scriggo.Program, rec *recorder, pl plan) result {
	*rec = recorder{plan: pl, stopE: errors.New("E: stop"), fatalV: &struct{ n int }{pl.k}}
	var res result
	res.panicked, res.pval, res.stack = harness.Guard(func() {
		res.err = prog.Run(&scriggo.RunOptions{Print: rec.print})
	})
	res.events = rec.events
	return res
}

// idOf decodes the statement id from a panic value's text; host reports
// whether it was delivered by a native Point call.
func idOf(text string) (id int, host, ok bool) {
	switch {
	case strings.HasPrefix(text, "hp"):
		n, err := strconv.Atoi(text[2:])
		return n, true, err == nil
	case strings.HasPrefix(text, "he"):
		n, err := strconv.Atoi(text[2:])
		return n, true, err == nil
	case strings.HasPrefix(text, "s"), strings.HasPrefix(text, "e"):
		n, err := strconv.Atoi(text[1:])
		return n, false, err == nil
	}
	n, err := strconv.Atoi(text)
	if err != nil {
		return 0, false, false
	}
	if n >= 100000 {
		return n - 100000, true, true
	}
	return n, false, true
}

func pkgOf(id int) string {
	if id >= 1000 {
		return "m/sub1"
	}
	return "main"
}

func sameEvents(a, b []string) bool {
	if len(a) != len(b) {
		return false
	}
	for i := range a {
		if a[i] != b[i] {
			return false
		}
	}
	return true
}

func diffEvents(got, want []string) string {
	i := 0
	for i < len(got) && i < len(want) && got[i] == want[i] {
		i++
	}
	g, w := "<end>", "<end>"
	if i < len(got) {
		g = got[i]
	}
	if i < len(want) {
		w = want[i]
	}
	return fmt.Sprintf("first difference at event %d: got %s, want %s (got %d events %v, want %d events %v)", i, g, w, len(got), got, len(want), want)
}

// ---- templates ------------------------------------------------------------

// tmplSet is a generated template set: index.html imports lib.html (and
// optionally extends layout.html); every statement is on its own line and a
// statement id is 1000*file + line (file 0 index.html, 1 lib.html, 2
// layout.html).
type tmplSet struct {
	files map[string]string
	ids   []int // ids of Point calls in source order (informational)
}

var tmplFiles = []string{"index.html", "lib.html", "layout.html"}

func genTemplateSet(r *harness.Run) *tmplSet {
	s := r.S
	ts := &tmplSet{files: map[string]string{}}
	body := func(file int, lines *[]string, n int, allowPanic bool) {
		for i := 0; i < n; i++ {
			id := file*1000 + len(*lines) + 1
			switch s.Pick(5, 2, 1, 1) {
			case 0:
				*lines = append(*lines, fmt.Sprintf("{%% Point(%d) %%}", id))
				ts.ids = append(ts.ids, id)
			case 1:
				*lines = append(*lines, fmt.Sprintf("text%d {{ %d }}", id, id))
			case 2:
				if allowPanic && s.Chance(1, 2) {
					*lines = append(*lines, fmt.Sprintf("{%% panic(\"s%d\") %%}", id))
				} else {
					*lines = append(*lines, fmt.Sprintf("{%% Point(%d) %%}", id))
				}
			case 3:
				*lines = append(*lines, fmt.Sprintf("{%% if Yes(%d) %%}y{%% end %%}", id))
			}
		}
	}
	// lib.html: macros
	var lib []string
	nm := 1 + s.N(3)
	for m := 1; m <= nm; m++ {
		lib = append(lib, fmt.Sprintf("{%% macro M%d %%}", m))
		body(1, &lib, 1+s.N(3), true)
		if m > 1 && s.Bool() {
			lib = append(lib, fmt.Sprintf("{{ M%d() }}", m-1))
		}
		lib = append(lib, "{% end macro %}")
	}
	ts.files["lib.html"] = strings.Join(lib, "\n") + "\n"
	// index.html
	var idx []string
	extends := s.Chance(1, 3)
	if extends {
		idx = append(idx, `{% extends "layout.html" %}`)
	}
	idx = append(idx, `{% import "lib.html" %}`)
	if extends {
		idx = append(idx, "{% macro Body %}")
	}
	body(0, &idx, 1+s.N(3), false)
	for m := 1; m <= nm; m++ {
		if s.Chance(2, 3) {
			idx = append(idx, fmt.Sprintf("{{ M%d() }}", m))
		}
	}
	body(0, &idx, 1+s.N(2), true)
	if extends {
		idx = append(idx, "{% end macro %}")
		var lay []string
		body(2, &lay, 1+s.N(2), false)
		lay = append(lay, "{{ Body() }}")
		body(2, &lay, 1+s.N(2), false)
		ts.files["layout.html"] = strings.Join(lay, "\n") + "\n"
	}
	ts.files["index.html"] = strings.Join(idx, "\n") + "\n"
	return ts
}

type tmplResult struct {
	err      error
	panicked bool
	pval     any
	stack    string
	events   []string
	out      string
}

// execTemplate is the template half of the check: no gc reference exists for
// templates, so panics are judged only when a single, un-nested panic ends the
// run (its value, path and line are known by construction); Stop and Fatal are
// self-referential as for programs.
func execTemplate(r *harness.Run) *harness.Violation {
	ts := genTemplateSet(r)
	r.Artefact = map[string]any{"files": ts.files}
	rec := &recorder{}
	globals := native.Declarations{
		"Point": hPackage(rec).Declarations["Point"],
		"Yes":   func(id int) bool { return true },
	}
	fsys := scriggo.Files{}
	for n, c := range ts.files {
		fsys[n] = []byte(c)
	}
	t, err := scriggo.BuildTemplate(fsys, "index.html", &scriggo.BuildOptions{Globals: globals})
	if err != nil {
		r.Count("skipped.build_error", 1)
		r.Logf("template build error: %v", err)
		return nil
	}
	runT := func(pl plan) tmplResult {
		*rec = recorder{plan: pl, stopE: errors.New("E: stop"), fatalV: &struct{ n int }{pl.k}}
		var res tmplResult
		var out strings.Builder
		res.panicked, res.pval, res.stack = harness.Guard(func() { res.err = t.Run(&out, nil, nil) })
		res.events = rec.events
		res.out = out.String()
		return res
	}
	ff := runT(plan{})
	r.Evals(1)
	if ff.panicked {
		return harness.Violf("host-panic", "template, fault-free run: Run panicked into the host with %T %v\n%s", ff.pval, ff.pval, ff.stack)
	}
	// An explicit panic statement (single, never recovered: templates here
	// have no defer) must be reported with its own value, path and line.
	checkPanic := func(ctx string, err error, wantText string) *harness.Violation {
		pe, ok := err.(*scriggo.PanicError)
		if !ok {
			return harness.Violf("template-wrong-outcome", "%s: Run returned %T %v, want a *PanicError %q", ctx, err, err, wantText)
		}
		if pe.String() != wantText || pe.Next() != nil || pe.Recovered() {
			return harness.Violf("template-wrong-panic-value", "%s: PanicError is %q (next %v, recovered %v), want the single panic %q", ctx, pe.String(), pe.Next() != nil, pe.Recovered(), wantText)
		}
		id, _, ok := idOf(wantText)
		if !ok {
			harness.Fail("cannot decode id from %q", wantText)
		}
		if pe.Path() != tmplFiles[id/1000] || pe.Position().Line != id%1000 {
			return harness.Violf("template-wrong-position", "%s: panic %q reports %s:%d, want %s:%d", ctx, wantText, pe.Path(), pe.Position().Line, tmplFiles[id/1000], id%1000)
		}
		return nil
	}
	if ff.err != nil {
		// the fault-free run ends in an explicit panic statement: find it
		pe, ok := ff.err.(*scriggo.PanicError)
		if !ok {
			return harness.Violf("template-wrong-outcome", "template, fault-free run: Run returned %T %v", ff.err, ff.err)
		}
		if v := checkPanic("template, fault-free run", ff.err, pe.String()); v != nil {
			return v
		}
		if !strings.HasPrefix(pe.String(), "s") {
			return harness.Violf("template-wrong-panic-value", "template, fault-free run: unexpected panic %q", pe.String())
		}
		r.Count("probe.template_explicit_panic", 1)
	}
	W := 0
	var cut []int
	for i, e := range ff.events {
		if strings.HasPrefix(e, "P") {
			W++
			cut = append(cut, i+1)
		}
	}
	key := fmt.Sprint(ts.files)
	for k := 1; k <= W && k <= maxPoints; k++ {
		ctx := fmt.Sprintf("template, Point call %d of %d (%s)", k, W, ff.events[cut[k-1]-1])
		res := runT(plan{k, "stop"})
		r.Evals(1)
		r.Count("fault.template-stop", 1)
		r.Distinct(fmt.Sprintf("%s|%d|stop", key, k))
		if res.panicked {
			return harness.Violf("stop-host-panic", "Stop at %s: Run panicked into the host with %T %v\n%s", ctx, res.pval, res.pval, res.stack)
		}
		if res.err != rec.stopE {
			return harness.Violf("stop-wrong-error", "Stop at %s: Run returned %T %v, want the error passed to Stop itself", ctx, res.err, res.err)
		}
		if !sameEvents(res.events, ff.events[:cut[k-1]]) {
			return harness.Violf("stop-code-ran-after", "Stop at %s: %s", ctx, diffEvents(res.events, ff.events[:cut[k-1]]))
		}
		if !strings.HasPrefix(ff.out, res.out) {
			return harness.Violf("stop-code-ran-after", "Stop at %s: output %q is not a prefix of the fault-free output %q", ctx, res.out, ff.out)
		}
		res = runT(plan{k, "fatal"})
		r.Evals(1)
		r.Count("fault.template-fatal", 1)
		r.Distinct(fmt.Sprintf("%s|%d|fatal", key, k))
		if !res.panicked {
			return harness.Violf("fatal-no-panic", "Fatal at %s: Run returned %T %v instead of panicking with the value", ctx, res.err, res.err)
		}
		if res.pval != rec.fatalV {
			return harness.Violf("fatal-wrong-value", "Fatal at %s: Run panicked with %T %v, want the value passed to Fatal itself", ctx, res.pval, res.pval)
		}
		if !sameEvents(res.events, ff.events[:cut[k-1]]) {
			return harness.Violf("fatal-code-ran-after", "Fatal at %s: %s", ctx, diffEvents(res.events, ff.events[:cut[k-1]]))
		}
		// host panic (string kind): un-nested, never recovered
		res = runT(plan{k, "ps"})
		r.Evals(1)
		r.Count("fault.template-native-panic", 1)
		r.Distinct(fmt.Sprintf("%s|%d|ps", key, k))
		if res.panicked {
			return harness.Violf("native-panic-host-panic", "native panic at %s: Run panicked into the host with %T %v\n%s", ctx, res.pval, res.pval, res.stack)
		}
		want := "hp" + strings.TrimPrefix(ff.events[cut[k-1]-1], "P")
		if v := checkPanic("native panic at "+ctx, res.err, want); v != nil {
			return v
		}
		if !sameEvents(res.events, ff.events[:cut[k-1]]) {
			return harness.Violf("native-panic-wrong-events", "native panic at %s: %s", ctx, diffEvents(res.events, ff.events[:cut[k-1]]))
		}
	}
	r.Sample(map[string]any{"template": true, "files": len(ts.files), "point_calls": W})
	return nil
}

func exec(r *harness.Run) *harness.Violation {
	if r.Feature("template", 1, 4) {
		return execTemplate(r)
	}
	p := skel.Gen(r.S, skel.Options{Feature: r.Feature})
	gp := gcref.Prog{Files: p.Files}
	r.Artefact = map[string]any{"files": p.Files}
	rec := &recorder{}
	fsys := scriggo.Files{}
	for n, src := range p.Files {
		fsys[n] = []byte(src)
	}
	prog, err := scriggo.Build(fsys, &scriggo.BuildOptions{Packages: native.Packages{"h": hPackage(rec)}})
	if err != nil {
		// gc accepted it (checked below through the bundle build) but Scriggo
		// did not: a C03 matter, not C12. Counted, never failed.
		r.Count("skipped.build_error", 1)
		r.Logf("scriggo build error: %v", err)
		return nil
	}
	key := gp.Key()

	// compare checks one execution against gc.
	compare := func(pl plan, ctx string) *harness.Violation {
		g := gcRun(gp, pl.k, pl.kind)
		if g.TimedOut || (g.Exit != 0 && g.Exit != 2) {
			harness.Fail("gc reference run failed (exit %d, timeout %v): %s", g.Exit, g.TimedOut, g.Stderr)
		}
		gev, crash := splitGc(g.Stderr)
		res := run(prog, rec, pl)
		r.Evals(1)
		hostKind := "host-panic"
		if pl.k > 0 {
			hostKind = "native-panic-host-panic"
		}
		cls := func(c string) string {
			if pl.k > 0 {
				return "native-panic-" + c
			}
			return c
		}
		if res.panicked {
			return harness.Violf(hostKind, "%s: Run panicked into the host with %T %v (gc: exit %d)\n%s", ctx, res.pval, res.pval, g.Exit, res.stack)
		}
		if !sameEvents(res.events, gev) {
			return harness.Violf(cls("wrong-events"), "%s: %s", ctx, diffEvents(res.events, gev))
		}
		if crash == "" {
			if res.err != nil {
				return harness.Violf(cls("wrong-outcome"), "%s: Run returned %T %v, gc finished normally", ctx, res.err, res.err)
			}
			return nil
		}
		chain, ok := gcref.PanicChain(crash)
		if !ok {
			harness.Fail("cannot parse gc crash output: %q", crash)
		}
		pe, isPanic := res.err.(*scriggo.PanicError)
		if !isPanic {
			return harness.Violf(cls("wrong-outcome"), "%s: Run returned %T %v, want a *PanicError (gc: %s)", ctx, res.err, res.err, strings.SplitN(crash, "\n\n", 2)[0])
		}
		// Walk Scriggo's chain: head is the latest panic.
		type elem struct {
			text      string
			recovered bool
			path      string
			line      int
		}
		var got []elem
		var walkPanic any
		_, walkPanic, _ = harness.Guard(func() {
			for q := pe; q != nil && len(got) < 50; q = q.Next() {
				got = append(got, elem{q.String(), q.Recovered(), q.Path(), q.Position().Line})
			}
		})
		if walkPanic != nil {
			return harness.Violf("chain-walk-panics", "%s: walking the chain with Next() until nil panicked after %d element(s): %v", ctx, len(got), walkPanic)
		}
		// reverse: earliest first, as gc prints.
		for i, j := 0, len(got)-1; i < j; i, j = i+1, j-1 {
			got[i], got[j] = got[j], got[i]
		}
		gs := make([]string, len(got))
		for i, e := range got {
			gs[i] = e.text
			if e.recovered {
				gs[i] += " [recovered]"
			}
		}
		ws := make([]string, len(chain))
		for i, e := range chain {
			ws[i] = e.Text
			if e.Recovered {
				ws[i] += " [recovered]"
			}
		}
		// gc (1.23+) prints a panic whose value is identical to the one of the
		// panic it superseded only once ("X [recovered, repanicked]", or plain
		// "X"), so the flags of the later ones cannot be read back from its
		// output: both chains are compared with runs of equal values reduced
		// to their earliest element.
		gs, ws = collapseRuns(gs), collapseRuns(ws)
		if strings.Join(gs, " | ") != strings.Join(ws, " | ") {
			// Sub-class: gc's chain is a subsequence of Scriggo's (stale or
			// duplicated entries that gc has already dropped).
			k := 0
			for _, g := range gs {
				if k < len(ws) && g == ws[k] {
					k++
				}
			}
			if len(gs) == 1 && len(ws) == 1 {
				// A single panic, no nesting: not covered by any known finding.
				return harness.Violf(cls("wrong-panic-value"), "%s: the unrecovered panic is [%s], gc has [%s]", ctx, gs[0], ws[0])
			}
			if k == len(ws) && len(gs) > len(ws) {
				return harness.Violf(cls("wrong-chain-extra-elements"), "%s: panic chain (earliest first) is [%s], gc has [%s]", ctx, strings.Join(gs, " | "), strings.Join(ws, " | "))
			}
			return harness.Violf(cls("wrong-chain"), "%s: panic chain (earliest first) is [%s], gc has [%s]", ctx, strings.Join(gs, " | "), strings.Join(ws, " | "))
		}
		for i, e := range got {
			id, _, ok := idOf(e.text)
			if !ok {
				harness.Fail("cannot decode statement id from panic text %q", e.text)
			}
			if p.DeferredPoints[id] {
				continue
			}
			if len(p.RepanicPoints) > 0 {
				// A recovered value panicked again by a `panic(r)` statement
				// is located at that statement, wherever it stands in the
				// chain (an earlier re-panic, recovered by a caller, may still
				// be in progress): such a position is accepted for any value.
				fileIdx := 0
				if e.path == skel.FileOf(1000) || e.path == pkgOf(1000) {
					fileIdx = 1
				}
				if p.RepanicPoints[fileIdx*1000+e.line] {
					continue
				}
			}
			_ = i
			// For programs Scriggo reports the package path ("main", "m/sub1"),
			// which identifies the file as well as its name does (one file
			// per package): both are accepted.
			pathOK := e.path == skel.FileOf(id) || e.path == pkgOf(id)
			if !pathOK || e.line != skel.LineOf(id) {
				return harness.Violf(cls("wrong-position"), "%s: panic %q reports %s:%d, want %s:%d", ctx, e.text, e.path, e.line, skel.FileOf(id), skel.LineOf(id))
			}
		}
		r.Count("probe.unrecovered_panic_chain_len_"+strconv.Itoa(min(len(got), 3)), 1)
		return nil
	}

	// Fault-free run (explicit panic statements are part of the program).
	if v := compare(plan{0, "none"}, "fault-free run"); v != nil {
		return v
	}
	ff := run(prog, rec, plan{})
	W := 0
	var cut []int // index in events after the k-th Point
	for i, e := range ff.events {
		if strings.HasPrefix(e, "P") {
			W++
			cut = append(cut, i+1)
		}
	}
	r.Logf("program %s: %d statements, %d events, W=%d", key, p.Stmts, len(ff.events), W)
	if W > maxPoints {
		r.Count("probe.more_than_60_points", 1)
		W = maxPoints
	}
	for k := 1; k <= W; k++ {
		ctx := fmt.Sprintf("Point call %d of %d (%s)", k, W, ff.events[cut[k-1]-1])
		// Stop
		res := run(prog, rec, plan{k, "stop"})
		r.Evals(1)
		r.Count("fault.stop", 1)
		r.Distinct(fmt.Sprintf("%s|%d|stop", key, k))
		if res.panicked {
			return harness.Violf("stop-host-panic", "Stop at %s: Run panicked into the host with %T %v\n%s", ctx, res.pval, res.pval, res.stack)
		}
		if res.err != rec.stopE {
			return harness.Violf("stop-wrong-error", "Stop at %s: Run returned %T %v, want the error passed to Stop itself", ctx, res.err, res.err)
		}
		if !sameEvents(res.events, ff.events[:cut[k-1]]) {
			return harness.Violf("stop-code-ran-after", "Stop at %s: %s", ctx, diffEvents(res.events, ff.events[:cut[k-1]]))
		}
		// Fatal
		res = run(prog, rec, plan{k, "fatal"})
		r.Evals(1)
		r.Count("fault.fatal", 1)
		r.Distinct(fmt.Sprintf("%s|%d|fatal", key, k))
		if !res.panicked {
			return harness.Violf("fatal-no-panic", "Fatal at %s: Run returned %T %v instead of panicking with the value", ctx, res.err, res.err)
		}
		if res.pval != rec.fatalV {
			return harness.Violf("fatal-wrong-value", "Fatal at %s: Run panicked with %T %v, want the value passed to Fatal itself", ctx, res.pval, res.pval)
		}
		if !sameEvents(res.events, ff.events[:cut[k-1]]) {
			return harness.Violf("fatal-code-ran-after", "Fatal at %s: %s", ctx, diffEvents(res.events, ff.events[:cut[k-1]]))
		}
		// Host panic
		kind := panicKind(key, k)
		r.Count("fault.native-panic-"+kind, 1)
		r.Distinct(fmt.Sprintf("%s|%d|%s", key, k, kind))
		if v := compare(plan{k, kind}, "native panic ("+kind+") at "+ctx); v != nil {
			return v
		}
	}
	r.Sample(map[string]any{"program": key, "statements": p.Stmts, "point_calls": W, "fault_points": 3 * W, "features": p.Features})
	return nil
}
