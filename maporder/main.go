// Command maporder rewrites, in a scratch copy of open2b/scriggo, every range
// statement over a map in the compiler and the public packages so that the
// iteration order is decided by the simulator (package internal/simmap of the
// copy) instead of Go's unseedable per-iteration randomisation.
//
//	maporder <scratch-repo-dir>
//
// The copy must already exist; the tool loads it with go/packages, rewrites
// the files in place, writes internal/simmap and the root-package control
// file, and prints a JSON report (sites rewritten, sites left alone and why).
package main

import (
	"encoding/json"
	"fmt"
	"go/ast"
	"go/printer"
	"go/token"
	"go/types"
	"os"
	"path/filepath"
	"sort"
	"strings"

	"golang.org/x/tools/go/packages"
)

type site struct {
	File string `json:"file"`
	Line int    `json:"line"`
	Key  string `json:"key_type"`
	Note string `json:"note,omitempty"`
}

type edit struct {
	start, end int // byte offsets replaced
	text       string
}

func main() {
	if len(os.Args) != 2 {
		fmt.Fprintln(os.Stderr, "usage: maporder <scratch-repo-dir>")
		os.Exit(2)
	}
	dir, _ := filepath.Abs(os.Args[1])
	// go/packages looks the go command up in this process's PATH.
	for _, e := range goEnv() {
		if strings.HasPrefix(e, "PATH=") {
			os.Setenv("PATH", e[5:])
		}
	}
	cfg := &packages.Config{
		Mode: packages.NeedName | packages.NeedFiles | packages.NeedSyntax | packages.NeedTypes | packages.NeedTypesInfo | packages.NeedCompiledGoFiles,
		Dir:  dir,
		Env:  goEnv(),
	}
	pkgs, err := packages.Load(cfg, ".", "./internal/compiler/...", "./native", "./ast/...", "./builtin")
	if err != nil {
		fmt.Fprintln(os.Stderr, "load:", err)
		os.Exit(2)
	}
	var rewritten, skipped []site
	edits := map[string][]edit{}
	needImport := map[string]bool{}
	for _, p := range pkgs {
		if len(p.Errors) > 0 {
			fmt.Fprintln(os.Stderr, "package errors:", p.PkgPath, p.Errors)
			os.Exit(2)
		}
		for i, f := range p.Syntax {
			fname := p.CompiledGoFiles[i]
			if strings.HasSuffix(fname, "_test.go") || strings.Contains(fname, "simmap") {
				continue
			}
			src, err := os.ReadFile(fname)
			if err != nil {
				fmt.Fprintln(os.Stderr, err)
				os.Exit(2)
			}
			ast.Inspect(f, func(n ast.Node) bool {
				rs, ok := n.(*ast.RangeStmt)
				if !ok {
					return true
				}
				tv, ok := p.TypesInfo.Types[rs.X]
				if !ok {
					return true
				}
				mt, ok := tv.Type.Underlying().(*types.Map)
				if !ok {
					return true
				}
				pos := p.Fset.Position(rs.Pos())
				rel, _ := filepath.Rel(dir, fname)
				st := site{File: rel, Line: pos.Line, Key: mt.Key().String()}
				if rs.Key == nil {
					st.Note = "no iteration variables: order irrelevant"
					skipped = append(skipped, st)
					return true
				}
				// `range m` becomes `range simmap.Seq(m)`: an iterator function
				// (Go 1.23) that evaluates m once, walks a snapshot of the keys
				// in the decided order and re-checks membership before each
				// iteration, which is within Go's range semantics when the body
				// deletes or inserts entries. All forms (define, assign, blank,
				// key only, labels, break/continue/return) keep working.
				start := p.Fset.Position(rs.X.Pos()).Offset
				end := p.Fset.Position(rs.X.End()).Offset
				_ = src
				edits[fname] = append(edits[fname], edit{start, end, "simmap.Seq(" + exprString(p.Fset, rs.X) + ")"})
				needImport[fname] = true
				rewritten = append(rewritten, st)
				return true
			})
		}
	}
	for fname, es := range edits {
		src, _ := os.ReadFile(fname)
		sort.Slice(es, func(i, j int) bool { return es[i].start > es[j].start })
		for _, e := range es {
			src = append(append(append([]byte(nil), src[:e.start]...), e.text...), src[e.end:]...)
		}
		// add the import after the package clause
		s := string(src)
		idx := strings.Index(s, "\npackage ")
		if strings.HasPrefix(s, "package ") {
			idx = -1
		}
		nl := strings.Index(s[idx+1:], "\n") + idx + 1
		s = s[:nl+1] + "\nimport \"github.com/open2b/scriggo/internal/simmap\"\n" + s[nl+1:]
		if err := os.WriteFile(fname, []byte(s), 0o644); err != nil {
			fmt.Fprintln(os.Stderr, err)
			os.Exit(2)
		}
	}
	if err := os.MkdirAll(filepath.Join(dir, "internal", "simmap"), 0o755); err != nil {
		fmt.Fprintln(os.Stderr, err)
		os.Exit(2)
	}
	os.WriteFile(filepath.Join(dir, "internal", "simmap", "simmap.go"), []byte(simmapSrc), 0o644)
	os.WriteFile(filepath.Join(dir, "simmap_control.go"), []byte(controlSrc), 0o644)
	sort.Slice(rewritten, func(i, j int) bool { return rewritten[i].File+fmt.Sprint(rewritten[i].Line) < rewritten[j].File+fmt.Sprint(rewritten[j].Line) })
	json.NewEncoder(os.Stdout).Encode(map[string]any{"rewritten": rewritten, "skipped": skipped})
}

// goEnv returns the environment for the go command run by go/packages: the
// toolchain that can build the repository first in PATH, offline.
func goEnv() []string {
	bin := os.Getenv("VERIF_GO_BIN_DIR")
	if bin == "" {
		bin = "/opt/veriftools/go1.26.8/bin"
	}
	env := []string{"PATH=" + bin + string(os.PathListSeparator) + os.Getenv("PATH")}
	for _, e := range os.Environ() {
		if !strings.HasPrefix(e, "PATH=") && !strings.HasPrefix(e, "GOFLAGS=") && !strings.HasPrefix(e, "GOPROXY=") && !strings.HasPrefix(e, "GOTOOLCHAIN=") && !strings.HasPrefix(e, "GOSUMDB=") {
			env = append(env, e)
		}
	}
	return append(env, "GOFLAGS=-mod=mod", "GOPROXY=off", "GOSUMDB=off", "GOTOOLCHAIN=local")
}

func simpleExpr(e ast.Expr) bool {
	switch e := e.(type) {
	case *ast.Ident:
		return true
	case *ast.SelectorExpr:
		return simpleExpr(e.X)
	case *ast.ParenExpr:
		return simpleExpr(e.X)
	case *ast.IndexExpr:
		return simpleExpr(e.X) && simpleExpr(e.Index)
	case *ast.BasicLit:
		return true
	case *ast.StarExpr:
		return simpleExpr(e.X)
	}
	return false
}

func exprString(fset *token.FileSet, e ast.Expr) string {
	var b strings.Builder
	printer.Fprint(&b, fset, e)
	return b.String()
}

const simmapSrc = `// Package simmap decides the iteration order of the maps ranged over by the
// compiler (written by the maporder tool into a scratch copy only).
package simmap

import (
	"fmt"
	"iter"
	"reflect"
	"sort"
	"sync/atomic"
)

// Mode selects the permutation applied to the canonical key order:
// 0 canonical, 1 reverse, 2 rotation, 3 seeded shuffle (different at every call).
var Mode int

// Seed seeds modes 2 and 3.
var Seed uint64

// Calls counts Keys calls; Uncontrolled counts calls whose key type has no
// canonical order (native map order was used as the base order).
var Calls, Uncontrolled atomic.Int64

// seq numbers the shuffles since the last Reset, so that a build is a pure
// function of (Mode, Seed) and not of the process history.
var seq atomic.Int64

// Reset restarts the shuffle sequence.
func Reset() { seq.Store(0) }

func next(s *uint64) uint64 {
	*s += 0x9e3779b97f4a7c15
	z := *s
	z = (z ^ (z >> 30)) * 0xbf58476d1ce4e5b9
	z = (z ^ (z >> 27)) * 0x94d049bb133111eb
	return z ^ (z >> 31)
}

type stringer interface{ String() string }

type positioner interface{ Pos() interface{ String() string } }

// canon returns a sort key for k and whether the key type has a canonical order.
func canon(v reflect.Value) (string, bool) {
	switch v.Kind() {
	case reflect.String:
		return "s" + v.String(), true
	case reflect.Int, reflect.Int8, reflect.Int16, reflect.Int32, reflect.Int64:
		return fmt.Sprintf("i%020d", uint64(v.Int())+1<<63), true
	case reflect.Uint, reflect.Uint8, reflect.Uint16, reflect.Uint32, reflect.Uint64:
		return fmt.Sprintf("u%020d", v.Uint()), true
	case reflect.Bool:
		return fmt.Sprint("b", v.Bool()), true
	}
	if v.CanInterface() {
		switch x := v.Interface().(type) {
		case reflect.Type:
			if x == nil {
				return "t", true
			}
			return "t" + x.PkgPath() + "." + x.String(), true
		}
		// Pointers to AST nodes, functions, declarations: type, printed form,
		// source position and identifying fields. Equal canonical keys (ties)
		// are counted as uncontrolled by Keys.
		key := fmt.Sprintf("P%T:", v.Interface())
		if x, ok := v.Interface().(stringer); ok && !(v.Kind() == reflect.Pointer && v.IsNil()) {
			key += x.String()
		}
		if m := v.MethodByName("Pos"); m.IsValid() && m.Type().NumIn() == 0 && m.Type().NumOut() == 1 && !(v.Kind() == reflect.Pointer && v.IsNil()) {
			pos := m.Call(nil)[0]
			if pos.Kind() == reflect.Pointer && !pos.IsNil() {
				pos = pos.Elem()
			}
			if pos.Kind() == reflect.Struct {
				key += fmt.Sprintf("@%v", pos.Interface())
			}
		}
		e := v
		if e.Kind() == reflect.Pointer && !e.IsNil() {
			e = e.Elem()
		}
		if e.Kind() == reflect.Struct {
			for _, f := range []string{"Pkg", "Name", "File", "Path"} {
				if fv := e.FieldByName(f); fv.IsValid() && fv.Kind() == reflect.String {
					key += "#" + fv.String()
				}
			}
			if fv := e.FieldByName("Pos"); fv.IsValid() && fv.Kind() == reflect.Pointer && !fv.IsNil() {
				key += fmt.Sprintf("@%v", fv.Elem().Interface())
			}
		}
		return key, true
	}
	return "", false
}

// Seq returns an iterator over m in the order decided by Mode.
func Seq[M ~map[K]V, K comparable, V any](m M) iter.Seq2[K, V] {
	return func(yield func(K, V) bool) {
		for _, k := range Keys(m) {
			v, ok := m[k]
			if !ok {
				continue
			}
			if !yield(k, v) {
				return
			}
		}
	}
}

// Keys returns the keys of m in the order decided by Mode.
func Keys[M ~map[K]V, K comparable, V any](m M) []K {
	Calls.Add(1)
	keys := make([]K, 0, len(m))
	for k := range m {
		keys = append(keys, k)
	}
	if len(keys) < 2 {
		return keys
	}
	ck := make([]string, len(keys))
	ok := true
	for i, k := range keys {
		var c bool
		ck[i], c = canon(reflect.ValueOf(&k).Elem())
		ok = ok && c
	}
	if ok {
		idx := make([]int, len(keys))
		for i := range idx {
			idx[i] = i
		}
		sort.SliceStable(idx, func(a, b int) bool { return ck[idx[a]] < ck[idx[b]] })
		sorted := make([]K, len(keys))
		for i, j := range idx {
			sorted[i] = keys[j]
		}
		keys = sorted
		sort.Strings(ck)
		for i := 1; i < len(ck); i++ {
			if ck[i] == ck[i-1] {
				// a tie: the relative order of these keys is Go's
				Uncontrolled.Add(1)
				break
			}
		}
	} else {
		Uncontrolled.Add(1)
	}
	switch Mode {
	case 1:
		for i, j := 0, len(keys)-1; i < j; i, j = i+1, j-1 {
			keys[i], keys[j] = keys[j], keys[i]
		}
	case 2:
		s := Seed
		r := int(next(&s) % uint64(len(keys)))
		keys = append(append([]K(nil), keys[r:]...), keys[:r]...)
	case 3:
		s := Seed ^ uint64(seq.Add(1))*0x9e3779b97f4a7c15
		for i := len(keys) - 1; i > 0; i-- {
			j := int(next(&s) % uint64(i+1))
			keys[i], keys[j] = keys[j], keys[i]
		}
	}
	return keys
}
`

const controlSrc = `package scriggo

import "github.com/open2b/scriggo/internal/simmap"

// SetSimMapOrder sets the map iteration order used by the compiler (scratch
// copy written by the maporder tool).
func SetSimMapOrder(mode int, seed uint64) {
	simmap.Mode = mode
	simmap.Seed = seed
	simmap.Reset()
}

// SimMapOrderStats returns the number of controlled map iterations and of
// those whose key type has no canonical order.
func SimMapOrderStats() (calls, uncontrolled int64) {
	return simmap.Calls.Load(), simmap.Uncontrolled.Load()
}
`
