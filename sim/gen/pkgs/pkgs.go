// Package pkgs generates programs made of several packages of one module
// with a drawn import graph: chains, diamonds, the same package imported by
// several packages and in different positions of their import lists, self
// imports, cycles of any length reachable from main or not, imports of
// missing packages, nested directories.
package pkgs

import (
	"fmt"
	"sort"
	"strings"

	"verifsim/choice"
)

// Prog is a generated program.
type Prog struct {
	Files map[string]string
	// Imports maps every package path ("main", "m/p1", ...) to its imports.
	Imports map[string][]string
	// HasCycle reports whether an import cycle is reachable from main
	// through existing packages.
	HasCycle bool
	// Missing reports whether a missing package is reachable from main.
	Missing bool
}

// Options select generator behaviour.
type Options struct {
	Feature func(name string, num, den int) bool
}

var dirs = []string{"p1", "p2", "a/p3", "p4", "a/b/p5", "p6"}

// Gen generates a program.
func Gen(s *choice.Stream, o Options) *Prog {
	feat := func(name string, num, den int) bool {
		if o.Feature != nil {
			return o.Feature(name, num, den)
		}
		return s.Chance(num, den)
	}
	p := &Prog{Files: map[string]string{"go.mod": "module m\n"}, Imports: map[string][]string{}}
	n := s.Range(2, len(dirs))
	cycles := feat("import-cycles", 1, 2)
	missing := feat("missing-package", 1, 4)
	paths := []string{"main"}
	for i := 0; i < n; i++ {
		paths = append(paths, "m/"+dirs[i])
	}
	name := func(path string) string { return path[strings.LastIndex(path, "/")+1:] }
	for i, path := range paths {
		var imps []string
		seen := map[string]bool{}
		k := s.Small(3)
		if i == 0 {
			k = 1 + s.N(3)
		}
		for j := 0; j < k; j++ {
			var t string
			switch {
			case missing && s.Chance(1, 6):
				t = "m/zz"
			case cycles:
				t = paths[1+s.N(n)] // any package, itself included
			case i < n:
				t = paths[i+1+s.N(n-i)] // later packages only
			default:
				continue
			}
			if !seen[t] {
				seen[t] = true
				imps = append(imps, t)
			}
		}
		p.Imports[path] = imps
		var b strings.Builder
		if i == 0 {
			b.WriteString("package main\n\n")
		} else {
			fmt.Fprintf(&b, "package %s\n\n", name(path))
		}
		for _, t := range imps {
			fmt.Fprintf(&b, "import %q\n", t)
		}
		fmt.Fprintf(&b, "\nvar V = %d\n\nfunc F() int {\n\tr := V\n", i+1)
		for _, t := range imps {
			fmt.Fprintf(&b, "\tr += %s.F()\n", name(t))
		}
		b.WriteString("\treturn r\n}\n")
		if i == 0 {
			b.WriteString("\nfunc main() {\n\tprintln(F())\n}\n")
			p.Files["main.go"] = b.String()
		} else {
			p.Files[strings.TrimPrefix(path, "m/")+"/"+name(path)+".go"] = b.String()
		}
	}
	// Reachability, cycles.
	state := map[string]int{}
	var visit func(string)
	visit = func(x string) {
		switch state[x] {
		case 1:
			p.HasCycle = true
			return
		case 2:
			return
		}
		if _, ok := p.Imports[x]; !ok {
			p.Missing = true
			return
		}
		state[x] = 1
		for _, t := range p.Imports[x] {
			visit(t)
		}
		state[x] = 2
	}
	visit("main")
	return p
}

// Describe returns the files in a stable textual form.
func (p *Prog) Describe() string {
	names := make([]string, 0, len(p.Files))
	for n := range p.Files {
		names = append(names, n)
	}
	sort.Strings(names)
	var b strings.Builder
	for _, n := range names {
		fmt.Fprintf(&b, "--- %s\n%s\n", n, p.Files[n])
	}
	return b.String()
}
