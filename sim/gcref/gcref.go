// Package gcref runs generated Go programs compiled by the gc toolchain, as
// the reference semantics for C12 and C14. Programs are bundled (one package
// each) into one binary; each execution of a program is one OS process, so an
// unrecovered panic or a deadlock ends that process only.
package gcref

import (
	"bytes"
	"context"
	"crypto/sha256"
	"encoding/hex"
	"fmt"
	"os"
	"os/exec"
	"path/filepath"
	"sort"
	"strings"
	"sync"
	"time"
)

// Prog is a program in Scriggo's layout: "main.go" (package main), optional
// "go.mod" with `module m` and sub-packages "sub/sub.go" imported as "m/sub".
type Prog struct {
	Files map[string]string
}

// Key returns a stable hash of the program's files.
func (p Prog) Key() string {
	names := make([]string, 0, len(p.Files))
	for n := range p.Files {
		names = append(names, n)
	}
	sort.Strings(names)
	h := sha256.New()
	for _, n := range names {
		fmt.Fprintf(h, "%s\x00%d\x00%s\x00", n, len(p.Files[n]), p.Files[n])
	}
	return hex.EncodeToString(h.Sum(nil))[:24]
}

// Bundle is a built binary containing several programs.
type Bundle struct {
	Dir   string
	Bin   string
	index map[string]string // program key -> package name
}

// Result is the outcome of one execution.
type Result struct {
	Stdout   string
	Stderr   string
	Exit     int
	TimedOut bool
}

func goBin() string {
	if g := os.Getenv("VERIF_GO"); g != "" {
		return g
	}
	for _, c := range []string{"/usr/local/bin/go1.26.8", "/opt/veriftools/go1.26.8/bin/go"} {
		if _, err := os.Stat(c); err == nil {
			return c
		}
	}
	return "go"
}

// Has reports whether the bundle contains the program.
func (b *Bundle) Has(key string) bool { _, ok := b.index[key]; return ok }

// Build creates dir, writes the shared packages (path -> source, e.g.
// "h/h.go" with package h, imported by programs as "h"), the programs and a
// dispatcher, and builds the binary. race builds with -race.
func Build(dir string, shared map[string]string, progs []Prog, race bool) (*Bundle, error) {
	if err := os.MkdirAll(dir, 0o755); err != nil {
		return nil, err
	}
	b := &Bundle{Dir: dir, Bin: filepath.Join(dir, "bundle.bin"), index: map[string]string{}}
	write := func(rel, content string) error {
		p := filepath.Join(dir, rel)
		if err := os.MkdirAll(filepath.Dir(p), 0o755); err != nil {
			return err
		}
		return os.WriteFile(p, []byte(content), 0o644)
	}
	if err := write("go.mod", "module bundle\n\ngo 1.25\n"); err != nil {
		return nil, err
	}
	sharedPkgs := map[string]bool{}
	for rel, src := range shared {
		if err := write(rel, src); err != nil {
			return nil, err
		}
		sharedPkgs[filepath.Dir(rel)] = true
	}
	var disp strings.Builder
	disp.WriteString("package main\n\nimport (\n\t\"os\"\n")
	var cases strings.Builder
	n := 0
	for _, p := range progs {
		key := p.Key()
		if _, dup := b.index[key]; dup {
			continue
		}
		pkg := fmt.Sprintf("p%d", n)
		n++
		b.index[key] = pkg
		for rel, src := range p.Files {
			if rel == "go.mod" {
				continue
			}
			src = rewrite(src, pkg, rel == "main.go", sharedPkgs)
			if err := write(filepath.Join(pkg, rel), src); err != nil {
				return nil, err
			}
		}
		fmt.Fprintf(&disp, "\t%q\n", "bundle/"+pkg)
		fmt.Fprintf(&cases, "\tcase %q:\n\t\t%s.Main()\n", pkg, pkg)
	}
	disp.WriteString(")\n\nfunc main() {\n\tswitch os.Args[1] {\n")
	disp.WriteString(cases.String())
	disp.WriteString("\tdefault:\n\t\tos.Exit(97)\n\t}\n}\n")
	if err := write("main.go", disp.String()); err != nil {
		return nil, err
	}
	args := []string{"build", "-o", b.Bin}
	if race {
		args = append(args, "-race")
	}
	args = append(args, ".")
	cmd := exec.Command(goBin(), args...)
	cmd.Dir = dir
	cmd.Env = append(os.Environ(), "GOFLAGS=-mod=mod", "GOPROXY=off", "GOSUMDB=off", "GOTOOLCHAIN=local", "GOMAXPROCS=")
	out, err := cmd.CombinedOutput()
	if err != nil {
		return nil, fmt.Errorf("gc build failed: %v\n%s", err, tailOf(string(out), 4000))
	}
	return b, nil
}

func tailOf(s string, n int) string {
	if len(s) > n {
		return s[:n]
	}
	return s
}

// rewrite adapts one file to the bundle: package clause, main -> Main, import
// paths. Every replacement stays within its line.
func rewrite(src, pkg string, isMain bool, shared map[string]bool) string {
	lines := strings.Split(src, "\n")
	for i, l := range lines {
		t := strings.TrimSpace(l)
		switch {
		case isMain && t == "package main":
			lines[i] = "package " + pkg
		case isMain && strings.HasPrefix(t, "func main()"):
			lines[i] = strings.Replace(l, "func main()", "func Main()", 1)
		case strings.HasPrefix(t, "import ") || (strings.HasPrefix(t, "\"") && strings.HasSuffix(t, "\"")) || (strings.Contains(t, " \"") && strings.HasSuffix(t, "\"") && !strings.Contains(t, "(")):
			// import line or a line of an import block
			q1 := strings.Index(l, "\"")
			q2 := strings.LastIndex(l, "\"")
			if q1 < 0 || q2 <= q1 {
				continue
			}
			path := l[q1+1 : q2]
			switch {
			case shared[path]:
				lines[i] = l[:q1+1] + "bundle/" + path + l[q2:]
			case strings.HasPrefix(path, "m/"):
				lines[i] = l[:q1+1] + "bundle/" + pkg + "/" + path[2:] + l[q2:]
			}
		}
	}
	return strings.Join(lines, "\n")
}

// Run executes one program of the bundle.
func (b *Bundle) Run(key string, args []string, env []string, timeout time.Duration) Result {
	pkg, ok := b.index[key]
	if !ok {
		return Result{Exit: 98, Stderr: "program not in bundle"}
	}
	ctx, cancel := context.WithTimeout(context.Background(), timeout)
	defer cancel()
	cmd := exec.CommandContext(ctx, b.Bin, append([]string{pkg}, args...)...)
	cmd.Env = append([]string{"GOTRACEBACK=single"}, env...)
	var so, se bytes.Buffer
	cmd.Stdout = &so
	cmd.Stderr = &se
	err := cmd.Run()
	r := Result{Stdout: so.String(), Stderr: se.String()}
	if ctx.Err() != nil {
		r.TimedOut = true
		r.Exit = -1
		return r
	}
	if err != nil {
		if ee, ok := err.(*exec.ExitError); ok {
			r.Exit = ee.ExitCode()
		} else {
			r.Exit = -2
			r.Stderr += "\nexec error: " + err.Error()
		}
	}
	return r
}

// Job is one execution request for RunMany.
type Job struct {
	Key  string
	Args []string
	Env  []string
}

// RunMany executes jobs with the given parallelism and returns the results in
// job order.
func (b *Bundle) RunMany(jobs []Job, par int, timeout time.Duration) []Result {
	res := make([]Result, len(jobs))
	var wg sync.WaitGroup
	ch := make(chan int)
	if par < 1 {
		par = 1
	}
	for w := 0; w < par; w++ {
		wg.Add(1)
		go func() {
			defer wg.Done()
			for i := range ch {
				res[i] = b.Run(jobs[i].Key, jobs[i].Args, jobs[i].Env, timeout)
			}
		}()
	}
	for i := range jobs {
		ch <- i
	}
	close(ch)
	wg.Wait()
	return res
}

// PanicChain parses the "panic: A [recovered]\n\tpanic: B" header of a gc
// crash into its elements, earliest first. ok is false if stderr does not
// start with a panic header.
type PanicElem struct {
	Text      string
	Recovered bool
}

func PanicChain(stderr string) ([]PanicElem, bool) {
	lines := strings.Split(stderr, "\n")
	var chain []PanicElem
	for i, l := range lines {
		var rest string
		if i == 0 {
			if !strings.HasPrefix(l, "panic: ") {
				return nil, false
			}
			rest = l[len("panic: "):]
		} else {
			if !strings.HasPrefix(l, "\tpanic: ") {
				break
			}
			rest = l[len("\tpanic: "):]
		}
		e := PanicElem{}
		if strings.HasSuffix(rest, " [recovered, repanicked]") {
			// Go 1.23+ collapses `panic: X [recovered]` + `panic: X` (the
			// same value panicked again after being recovered) into one line.
			t := strings.TrimSuffix(rest, " [recovered, repanicked]")
			chain = append(chain, PanicElem{Text: t, Recovered: true}, PanicElem{Text: t})
			continue
		}
		if strings.HasSuffix(rest, " [recovered]") {
			e.Recovered = true
			rest = strings.TrimSuffix(rest, " [recovered]")
		}
		e.Text = rest
		chain = append(chain, e)
	}
	return chain, len(chain) > 0
}
