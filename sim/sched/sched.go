//go:build verif

// Package sched is a deterministic goroutine scheduler for code running on
// Scriggo's virtual machine, built on testing/synctest and the guarded hooks
// of /repo (build tag verif).
//
// Every interpreted goroutine (the main VM goroutine, each `go` statement
// child, each simulated client) runs real code but can only advance while the
// simulator has released it. Goroutines park on a PRIVATE sync.Cond; the
// scheduler (the bubble's root goroutine) waits for quiescence with
// synctest.Wait, draws the next goroutine and quantum from the run's choice
// stream and signals that goroutine's Cond. Because the scheduler never
// touches a goroutine's mutex, the race detector sees no scheduler->goroutine
// edge: two steps of different goroutines are ordered for it only if the code
// under test synchronises them. All simulator state shared between goroutines
// is accessed in //go:norace functions and kept in fixed arrays (no maps).
package sched

import (
	"context"
	"fmt"
	"hash/fnv"
	"reflect"
	"sync"
	"testing"
	"testing/synctest"
	"time"

	"verifsim/choice"

	"github.com/open2b/scriggo"
)

// Goroutine states.
const (
	stNew     = iota // created by the parent's go hook, goroutine not yet parked
	stParked         // waiting on its Cond at a yield point
	stRunning        // released, executing
	stInOp           // released into a channel operation (possibly blocked in it)
	stDone
)

// Yield kinds.
const (
	YStart = iota
	YInstr
	YBeforeOp
	YAfterOp
	YNative
	YWrite
	YOther
)

var yieldNames = [...]string{"start", "instr", "before-op", "after-op", "native", "write", "other"}

const maxG = 4096

// Case is one case of a pending channel operation.
type Case struct {
	Dir  reflect.SelectDir
	Chan reflect.Value // zero for nil channels and default
	Ptr  uintptr
}

// G is the simulator's record of one goroutine.
type G struct {
	ID  string
	idx int
	sim *Sim

	mu       sync.Mutex // private: never touched by another goroutine
	cond     *sync.Cond
	released bool

	state     int
	yieldKind int
	detail    string
	quantum   int
	depth     int // nesting of runFunc (nested VMs of callbacks)
	children  int
	vmOwned   bool // created by a go statement (finishes when depth returns to 0)
	forcePark bool // park at the next instruction regardless of the quantum

	// pending channel operation (valid at YBeforeOp and in stInOp)
	ncases      int
	cases       [16]Case
	isSelect    bool
	chosen      int // case forced by the scheduler, -1 = none
	mustProceed bool
	saved       [16]reflect.Value
	blanked     [16]bool
	lastChosen  int

	Instrs int64
	// AfterCancelInstrs counts instructions executed after the cancel event.
	AfterCancelInstrs int
}

// Sim is one simulated execution.
type Sim struct {
	S    *choice.Stream
	gs   [maxG]*G
	ng   int
	cur  *G
	Step int

	MaxSteps int
	// MaxQuantum bounds the instructions per release (default 1<<20); checks
	// that run non-terminating programs set it low.
	MaxQuantum int
	Policy     int // 0 uniform, 1 run-to-block, 2 alternate, 3 priority (PCT-like)
	prio       [maxG]int
	changeAt   [4]int

	closed  [4096]uintptr
	closedV [4096]reflect.Value // keeps closed channels alive so that their address is not reused
	nclosed int
	ctxs    [8]context.Context
	nctx    int

	// BeforeStep is called by the scheduler at every quiescence before a
	// release (fault hooks: cancel, clock jumps); if it returns true an event
	// was fired and the scheduler waits for quiescence again before choosing.
	// Idle is called when nothing is parked; it returns true if it made
	// progress possible (fired an event).
	BeforeStep func(s *Sim) bool
	Idle       func(s *Sim) bool

	trace     uint64 // FNV-1a over (goroutine id, yield kind, detail)
	Switches  int
	Log       func(format string, args ...any)
	Cancelled bool // set by the harness when the cancel event fired
	Mismatch  string
	Probes    [8]int
}

// Probe indices.
const (
	PSelectMultiReady = iota
	PBlockedOp
	PWokenByPeer
	PSelectDefault
	PDoneCaseReady
)

// Outcome of Run.
type Outcome struct {
	Kind    string // "done", "deadlock", "step-cap", "mismatch"
	Detail  string
	Steps   int
	Blocked []string
}

var active *Sim

//go:norace
func getActive() *Sim { return active }

//go:norace
func setActive(s *Sim) { active = s }

var hooksOnce sync.Once

// Install installs the VM hooks (once per process).
func Install() {
	hooksOnce.Do(func() {
		scriggo.SetSimHooks(&scriggo.SimHooks{
			Begin:        hookBegin,
			End:          hookEnd,
			Instr:        hookInstr,
			Go:           hookGo,
			GoNative:     hookGoNative,
			Close:        hookClose,
			BeforeRecv:   hookBeforeRecv,
			BeforeSend:   hookBeforeSend,
			BeforeSelect: hookBeforeSelect,
			AfterChanOp:  hookAfterChanOp,
		})
	})
}

// New creates a simulation drawing from s.
func New(s *choice.Stream) *Sim {
	sim := &Sim{S: s, MaxSteps: 6000}
	return sim
}

// RegisterContext tells the model that the Done channel of ctx counts as
// closed once ctx.Err() != nil.
func (s *Sim) RegisterContext(ctx context.Context) {
	if ctx == nil || ctx.Done() == nil {
		return
	}
	s.ctxs[s.nctx] = ctx
	s.nctx++
}

//go:norace
func (s *Sim) newG(id string, vmOwned bool) *G {
	if s.ng >= maxG {
		// A limit of the simulator, never a verdict on the code under test.
		s.Mismatch = "simulator limit: more than 4096 goroutines in one simulation"
		s.ng = maxG - 1
	}
	g := &G{ID: id, idx: s.ng, sim: s, state: stNew, chosen: -1, vmOwned: vmOwned}
	g.cond = sync.NewCond(&g.mu)
	s.gs[s.ng] = g
	s.ng++
	return g
}

// Spawn starts a simulated client goroutine running fn. It must be called
// from the scheduler goroutine inside the bubble (before or during Run).
func (s *Sim) Spawn(id string, fn func()) *G {
	g := s.newG(id, false)
	go func() {
		g.park(YStart, "")
		fn()
		g.finish()
	}()
	return g
}

//go:norace
func (g *G) finish() { g.state = stDone }

// parkForever blocks a goroutine of a finished simulation for good.
//
//go:norace
func (g *G) parkForever() {
	g.mu.Lock()
	g.state = stParked
	g.released = false
	for {
		g.cond.Wait()
	}
}

// park blocks the calling goroutine until the scheduler releases it.
//
//go:norace
func (g *G) park(kind int, detail string) {
	g.yieldKind = kind
	g.detail = detail
	g.mu.Lock()
	g.state = stParked
	for !g.released {
		g.cond.Wait()
	}
	g.released = false
	g.mu.Unlock()
}

// release lets g run. The scheduler calls it only after synctest.Wait, i.e.
// when g is durably blocked in cond.Wait, so the signal cannot be lost; g's
// mutex is deliberately not taken.
//
//go:norace
func (g *G) release(st int) {
	g.state = st
	g.released = true
	g.cond.Signal()
}

// Yield parks the current goroutine at a simulator-owned seam (native
// function, writer, stringer...). It is a no-op outside a simulation.
//
//go:norace
func Yield(kind int, detail string) {
	s := getActive()
	if s == nil || s.cur == nil {
		return
	}
	s.cur.park(kind, detail)
}

// Current returns the id of the goroutine holding the token ("" outside a
// simulation).
//
//go:norace
func Current() string {
	s := getActive()
	if s == nil || s.cur == nil {
		return ""
	}
	return s.cur.ID
}

// ---- VM hooks -------------------------------------------------------------

//go:norace
func gOf(slot *scriggo.SimSlot) *G {
	if slot.P == nil {
		return nil
	}
	g, _ := slot.P.(*G)
	return g
}

//go:norace
func hookBegin(slot *scriggo.SimSlot) {
	s := getActive()
	if s == nil {
		return
	}
	g := gOf(slot)
	if g == nil {
		// The main VM of a Run, or a nested VM created for a callback: it
		// belongs to the goroutine that holds the token.
		g = s.cur
		if g == nil {
			return
		}
		slot.P = g
		g.depth++
		g.forcePark = true
		return
	}
	// A goroutine started by a go statement: park before doing anything.
	g.depth++
	if g.depth == 1 && g.state == stNew {
		g.park(YStart, "")
	}
	// runFunc starts a watcher goroutine for the context right after this
	// hook: park at the first instruction so that the watcher has settled
	// (quiescence) before any instruction is executed.
	g.forcePark = true
}

//go:norace
func hookEnd(slot *scriggo.SimSlot) {
	g := gOf(slot)
	if g == nil || getActive() == nil {
		return
	}
	g.depth--
	if g.depth == 0 && g.vmOwned {
		g.state = stDone
	}
}

//go:norace
func hookInstr(slot *scriggo.SimSlot) {
	g := gOf(slot)
	if g == nil {
		return
	}
	s := g.sim
	if s != getActive() {
		// The simulation this goroutine belongs to is over: it must never
		// execute another instruction (it would run outside any control).
		g.parkForever()
		return
	}
	g.Instrs++
	if g.Instrs > 1<<31 {
		panic(fmt.Sprintf("sched: goroutine %s ran %d instructions: quantum=%d step=%d", g.ID, g.Instrs, g.quantum, s.Step))
	}
	if s.Cancelled {
		g.AfterCancelInstrs++
	}
	g.quantum--
	if g.quantum <= 0 || g.forcePark {
		g.forcePark = false
		g.park(YInstr, "")
	}
}

//go:norace
func hookGo(parent, child *scriggo.SimSlot) {
	pg := gOf(parent)
	if pg == nil || pg.sim != getActive() {
		return
	}
	pg.children++
	child.P = pg.sim.newG(fmt.Sprintf("%s.%d", pg.ID, pg.children), true)
}

// hookGoNative runs the native function of a `go native(...)` statement in a
// goroutine owned by the simulator, so that when it starts relative to its
// parent is a scheduling decision like any other.
//
//go:norace
func hookGoNative(parent *scriggo.SimSlot, call func()) bool {
	pg := gOf(parent)
	if pg == nil || pg.sim != getActive() {
		return false
	}
	pg.children++
	g := pg.sim.newG(fmt.Sprintf("%s.n%d", pg.ID, pg.children), false)
	go func() {
		g.park(YStart, "native")
		call()
		g.finish()
	}()
	return true
}

//go:norace
func hookClose(slot *scriggo.SimSlot, ch reflect.Value) {
	g := gOf(slot)
	if g == nil || g.sim != getActive() {
		return
	}
	if ch.Kind() == reflect.Chan && !ch.IsNil() {
		g.sim.markClosed(ch)
	}
}

//go:norace
func (s *Sim) markClosed(ch reflect.Value) {
	if s.nclosed < len(s.closed) {
		s.closed[s.nclosed] = ch.Pointer()
		s.closedV[s.nclosed] = ch
		s.nclosed++
		return
	}
	s.Mismatch = "closed-channel table full"
}

//go:norace
func setCase(c *Case, dir reflect.SelectDir, ch reflect.Value) {
	c.Dir = dir
	c.Chan = reflect.Value{}
	c.Ptr = 0
	if dir != reflect.SelectDefault && ch.IsValid() && ch.Kind() == reflect.Chan && !ch.IsNil() {
		c.Chan = ch
		c.Ptr = ch.Pointer()
	}
}

//go:norace
func hookBeforeRecv(slot *scriggo.SimSlot, ch reflect.Value) {
	g := gOf(slot)
	if g == nil {
		return
	}
	if g.sim != getActive() {
		g.parkForever() // the simulation is over: never run outside its control
	}
	g.ncases = 1
	g.isSelect = false
	setCase(&g.cases[0], reflect.SelectRecv, ch)
	g.park(YBeforeOp, "recv")
}

//go:norace
func hookBeforeSend(slot *scriggo.SimSlot, ch reflect.Value) {
	g := gOf(slot)
	if g == nil {
		return
	}
	if g.sim != getActive() {
		g.parkForever() // the simulation is over: never run outside its control
	}
	g.ncases = 1
	g.isSelect = false
	setCase(&g.cases[0], reflect.SelectSend, ch)
	g.park(YBeforeOp, "send")
}

//go:norace
func hookBeforeSelect(slot *scriggo.SimSlot, cases []reflect.SelectCase) {
	g := gOf(slot)
	if g == nil {
		return
	}
	if g.sim != getActive() {
		g.parkForever() // the simulation is over: never run outside its control
	}
	if len(cases) > len(g.cases) {
		panic("sched: select with too many cases")
	}
	g.ncases = len(cases)
	g.isSelect = true
	for i := range cases {
		setCase(&g.cases[i], cases[i].Dir, cases[i].Chan)
		g.blanked[i] = false
	}
	g.park(YBeforeOp, "select")
	// Released: the scheduler may have forced one ready case; neutralise the
	// other ready cases (a zero Chan is ignored by reflect.Select). Forcing
	// one ready case is a legal Go schedule.
	if g.chosen >= 0 {
		for i := range cases {
			if i != g.chosen && g.blanked[i] {
				g.saved[i] = cases[i].Chan
				cases[i].Chan = reflect.Value{}
			}
		}
	}
}

//go:norace
func hookAfterChanOp(slot *scriggo.SimSlot, cases []reflect.SelectCase, chosen int) {
	g := gOf(slot)
	if g == nil {
		return
	}
	if g.sim != getActive() {
		g.parkForever() // the simulation is over: never run outside its control
	}
	if cases != nil && g.chosen >= 0 {
		for i := range cases {
			if i != g.chosen && g.blanked[i] {
				cases[i].Chan = g.saved[i]
				g.saved[i] = reflect.Value{}
				g.blanked[i] = false
			}
		}
	}
	g.lastChosen = chosen
	g.park(YAfterOp, "")
}

// ---- channel model --------------------------------------------------------

//go:norace
func (s *Sim) isClosed(p uintptr) bool {
	for i := 0; i < s.nclosed; i++ {
		if s.closed[i] == p {
			return true
		}
	}
	for i := 0; i < s.nctx; i++ {
		d := s.ctxs[i].Done()
		if reflect.ValueOf(d).Pointer() == p && s.ctxs[i].Err() != nil {
			return true
		}
	}
	return false
}

//go:norace
func (s *Sim) isDoneChan(p uintptr) bool {
	for i := 0; i < s.nctx; i++ {
		if reflect.ValueOf(s.ctxs[i].Done()).Pointer() == p {
			return true
		}
	}
	return false
}

// waiter reports whether some goroutine other than g is blocked in an
// operation with a case of direction dir on channel p.
//
//go:norace
func (s *Sim) waiter(g *G, p uintptr, dir reflect.SelectDir) bool {
	for i := 0; i < s.ng; i++ {
		o := s.gs[i]
		if o == g || o.state != stInOp {
			continue
		}
		for j := 0; j < o.ncases; j++ {
			if o.cases[j].Ptr == p && o.cases[j].Dir == dir {
				return true
			}
		}
	}
	return false
}

// ready reports whether case c of g can proceed now.
//
//go:norace
func (s *Sim) ready(g *G, c *Case) bool {
	if c.Ptr == 0 {
		return false
	}
	switch c.Dir {
	case reflect.SelectRecv:
		return c.Chan.Len() > 0 || s.isClosed(c.Ptr) || s.waiter(g, c.Ptr, reflect.SelectSend)
	case reflect.SelectSend:
		return s.isClosed(c.Ptr) || c.Chan.Len() < c.Chan.Cap() || s.waiter(g, c.Ptr, reflect.SelectRecv)
	}
	return false
}

// ---- scheduler ------------------------------------------------------------

//go:norace
func (s *Sim) tr(g *G, what string) {
	h := s.trace
	if h == 0 {
		h = 14695981039346656037
	}
	for _, b := range []byte(g.ID) {
		h = (h ^ uint64(b)) * 1099511628211
	}
	h = (h ^ uint64(g.yieldKind)) * 1099511628211
	for _, b := range []byte(what) {
		h = (h ^ uint64(b)) * 1099511628211
	}
	s.trace = h
}

// TraceHash returns the hash of the context-switch trace.
func (s *Sim) TraceHash() string { return fmt.Sprintf("%016x", s.trace) }

// Gs returns the goroutine records.
//
//go:norace
func (s *Sim) Gs() []*G { return s.gs[:s.ng] }

// Done reports whether g has finished.
//
//go:norace
func (g *G) Done() bool { return g.state == stDone }

// Describe returns a description of what g is doing.
//
//go:norace
func (g *G) Describe() string {
	st := [...]string{"new", "parked", "running", "in-op", "done"}[g.state]
	d := fmt.Sprintf("g%s %s", g.ID, st)
	if g.state == stParked {
		d += "@" + yieldNames[g.yieldKind]
		if g.detail != "" {
			d += "(" + g.detail + ")"
		}
	}
	if g.state == stInOp {
		d += " " + g.opString()
	}
	return d
}

//go:norace
func (g *G) opString() string {
	s := ""
	for i := 0; i < g.ncases; i++ {
		c := g.cases[i]
		switch c.Dir {
		case reflect.SelectRecv:
			s += fmt.Sprintf("[recv %x]", c.Ptr&0xffff)
		case reflect.SelectSend:
			s += fmt.Sprintf("[send %x]", c.Ptr&0xffff)
		default:
			s += "[default]"
		}
	}
	return s
}

// InOp reports whether g is blocked inside a channel operation.
//
//go:norace
func (g *G) InOp() bool { return g.state == stInOp }

// ParkedAt returns the yield kind g is parked at, or -1.
//
//go:norace
func (g *G) ParkedAt() int {
	if g.state != stParked {
		return -1
	}
	return g.yieldKind
}

// OpKind returns "recv", "send", "select" or "" for g's pending operation.
//
//go:norace
func (g *G) OpKind() string {
	if g.state == stInOp || (g.state == stParked && g.yieldKind == YBeforeOp) {
		if g.isSelect {
			// The implicit {op, ctx.Done()} select of an operation executed
			// with a context set is reported as the operation itself.
			if g.ncases == 2 && g.cases[1].Dir == reflect.SelectRecv && g.sim.isDoneChan(g.cases[1].Ptr) {
				if g.cases[0].Dir == reflect.SelectSend {
					return "send(ctx)"
				}
				return "recv(ctx)"
			}
			return "select"
		}
		if g.cases[0].Dir == reflect.SelectSend {
			return "send"
		}
		return "recv"
	}
	return ""
}

func (s *Sim) logf(format string, args ...any) {
	if s.Log != nil {
		s.Log(format, args...)
	}
}

// quantumFor draws how many instructions the released goroutine may run.
func (s *Sim) quantumFor() int {
	max := s.MaxQuantum
	if max <= 0 {
		max = 1 << 20
	}
	switch s.Policy {
	case 1:
		return max
	case 2:
		return 1
	}
	switch s.S.Pick(5, 3, 2, 1) {
	case 0:
		return 1 + s.S.N(3)
	case 1:
		return 1 + s.S.N(12)
	case 2:
		return 1 + s.S.N(64)
	default:
		return max
	}
}

// Run is the scheduler loop. It must be called on the bubble's root
// goroutine. It returns when every goroutine finished, on deadlock, when the
// step cap is hit, or when until() reports true (checked after every
// quiescence).
//
//go:norace
func (s *Sim) Run(until func() bool) Outcome {
	setActive(s)
	defer setActive(nil)
	if s.Policy == 3 {
		for i := range s.prio {
			s.prio[i] = s.S.N(1000)
		}
		for i := range s.changeAt {
			s.changeAt[i] = s.S.N(s.MaxSteps/4 + 1)
		}
	}
	var parked [maxG]*G
	for {
		synctest.Wait()
		if s.Mismatch != "" {
			return Outcome{Kind: "mismatch", Detail: s.Mismatch, Steps: s.Step}
		}
		np := 0
		alive := 0
		for i := 0; i < s.ng; i++ {
			g := s.gs[i]
			switch g.state {
			case stParked:
				parked[np] = g
				np++
				alive++
			case stDone:
			case stInOp:
				alive++
				if g.mustProceed {
					return Outcome{Kind: "mismatch", Detail: fmt.Sprintf("model predicted that %s would proceed in %s but it is blocked", g.ID, g.opString()), Steps: s.Step}
				}
			default:
				alive++
			}
			if g.state != stInOp {
				g.mustProceed = false
			}
		}
		if until != nil && until() {
			return Outcome{Kind: "until", Steps: s.Step}
		}
		if alive == 0 {
			return Outcome{Kind: "done", Steps: s.Step}
		}
		if s.Step >= s.MaxSteps {
			return Outcome{Kind: "step-cap", Steps: s.Step, Blocked: s.describeAll()}
		}
		if np == 0 {
			if s.Idle != nil && s.Idle(s) {
				continue
			}
			return Outcome{Kind: "deadlock", Steps: s.Step, Blocked: s.describeAll()}
		}
		if s.BeforeStep != nil && s.BeforeStep(s) {
			continue
		}
		// Candidate order: the current goroutine first (draw 0 = do not
		// switch), then by deterministic index.
		cand := parked[:np]
		if s.cur != nil && s.cur.state == stParked {
			for i, g := range cand {
				if g == s.cur {
					copy(cand[1:i+1], cand[:i])
					cand[0] = g
					break
				}
			}
		}
		var g *G
		switch s.Policy {
		case 1: // run to block: keep the current goroutine while it is parked at an instruction boundary
			if cand[0] == s.cur && s.cur.yieldKind != YStart {
				g = cand[0]
				s.S.N(1)
			} else {
				g = cand[s.S.N(np)]
			}
		case 3: // priorities with change points
			for k := range s.changeAt {
				if s.changeAt[k] == s.Step && s.cur != nil {
					s.prio[s.cur.idx] = -1 - k
				}
			}
			g = cand[0]
			for _, c := range cand {
				if s.prio[c.idx] > s.prio[g.idx] {
					g = c
				}
			}
			s.S.N(1)
		default:
			g = cand[s.S.N(np)]
		}
		q := s.quantumFor()
		st := stRunning
		if g.yieldKind == YBeforeOp {
			st = stInOp
			g.chosen = -1
			g.mustProceed = false
			if g.isSelect {
				var rdy [16]int
				nr := 0
				hasDefault := false
				for i := 0; i < g.ncases; i++ {
					if g.cases[i].Dir == reflect.SelectDefault {
						hasDefault = true
						continue
					}
					if s.ready(g, &g.cases[i]) {
						rdy[nr] = i
						nr++
					}
				}
				if nr > 0 {
					g.mustProceed = true
				}
				if nr > 1 {
					s.Probes[PSelectMultiReady]++
					g.chosen = rdy[s.S.N(nr)]
					for k := 0; k < nr; k++ {
						g.blanked[rdy[k]] = rdy[k] != g.chosen
					}
				} else {
					s.S.N(1)
				}
				if nr == 0 && hasDefault {
					s.Probes[PSelectDefault]++
					g.mustProceed = true
				}
			} else {
				s.S.N(1)
				if s.ready(g, &g.cases[0]) {
					g.mustProceed = true
				} else {
					s.Probes[PBlockedOp]++
				}
			}
		}
		if g != s.cur {
			s.Switches++
		}
		s.tr(g, g.detail)
		s.logf("step %d: release g%s at %s%s q=%d", s.Step, g.ID, yieldNames[g.yieldKind], detailOf(g), q)
		s.Step++
		s.cur = g
		g.quantum = q
		g.release(st)
	}
}

func detailOf(g *G) string {
	if g.detail == "" {
		return ""
	}
	d := "(" + g.detail
	if g.yieldKind == YBeforeOp && g.chosen >= 0 {
		d += fmt.Sprintf(" forced case %d", g.chosen)
	}
	return d + ")"
}

//go:norace
func (s *Sim) describeAll() []string {
	var out []string
	for i := 0; i < s.ng; i++ {
		if s.gs[i].state != stDone {
			out = append(out, s.gs[i].Describe())
		}
	}
	return out
}

// Bubble runs f inside a synctest bubble and recovers the end-of-bubble
// "all goroutines blocked" panic (a deadlocked or abandoned simulated
// program leaves goroutines behind; the verdict has been taken by then).
func Bubble(t *testing.T, f func()) (leaked bool) {
	defer func() {
		if e := recover(); e != nil {
			if s, ok := e.(string); ok && (contains(s, "deadlock") || contains(s, "blocked")) {
				leaked = true
				return
			}
			if err, ok := e.(error); ok && (contains(err.Error(), "deadlock") || contains(err.Error(), "blocked")) {
				leaked = true
				return
			}
			panic(e)
		}
	}()
	synctest.Test(t, func(t *testing.T) { f() })
	return false
}

func contains(s, sub string) bool {
	for i := 0; i+len(sub) <= len(s); i++ {
		if s[i:i+len(sub)] == sub {
			return true
		}
	}
	return false
}

// Hash64 is a helper for trace digests.
func Hash64(s string) uint64 {
	h := fnv.New64a()
	h.Write([]byte(s))
	return h.Sum64()
}

// Sleep advances the bubble's fake clock (scheduler goroutine only).
func Sleep(d time.Duration) { time.Sleep(d) }
