//go:build race

package harness

const raceEnabled = true
