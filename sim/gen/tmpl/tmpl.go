// Package tmpl generates template sets (1-6 files in mixed formats connected
// by extends / import / render, macros with and without explicit result
// format, shows in every context) as a total function of a choice stream.
package tmpl

import (
	"errors"
	"fmt"
	"sort"
	"strings"

	"verifsim/choice"

	"github.com/open2b/scriggo/native"
)

// Set is a generated template set.
type Set struct {
	Files map[string]string
	Main  string
	// Globals are the declarations for BuildOptions.Globals: (*T)(nil)
	// variable declarations, initialised per run through Vars.
	Globals native.Declarations
	// Vars are the run variables (by value).
	Vars map[string]any
	// Recovers reports whether some macro recovers panics (C13 exempts it).
	Recovers bool
	// DeferWrites reports whether some deferred function produces output.
	DeferWrites bool
	// UsesMarkdownConv reports whether the Markdown converter can be invoked.
	UsesMarkdownConv bool
	Features         []string
}

// Describe returns the files in a stable textual form.
func (s *Set) Describe() string {
	names := make([]string, 0, len(s.Files))
	for n := range s.Files {
		names = append(names, n)
	}
	sort.Strings(names)
	var b strings.Builder
	fmt.Fprintf(&b, "main=%s\n", s.Main)
	for _, n := range names {
		fmt.Fprintf(&b, "--- %s\n%s\n", n, s.Files[n])
	}
	return b.String()
}

// FilesBytes returns the files as a map usable as scriggo.Files.
func (s *Set) FilesBytes() map[string][]byte {
	m := make(map[string][]byte, len(s.Files))
	for k, v := range s.Files {
		m[k] = []byte(v)
	}
	return m
}

// Options select generator behaviour.
type Options struct {
	// Feature is consulted for every optional feature (swarm testing and
	// known-finding masks). num/den is the probability of enabling it.
	Feature func(name string, num, den int) bool
	// NoDefer disables defer/recover generation.
	NoDefer bool
	// MaxPieces bounds the number of pieces per body (default 8).
	MaxPieces int
}

// Stringer is a host value with a String method (a host callback seam).
type Stringer struct {
	S  string
	ID int
}

// StringerHook, when set, is called by Stringer.String (a yield point of the
// scheduler engines). It must be set before any run starts.
var StringerHook func(id int)

func (s Stringer) String() string {
	if StringerHook != nil {
		StringerHook(s.ID)
	}
	return s.S
}

// Strings is the dictionary of escape-relevant strings.
var Strings = []string{
	"", "plain", "a<b", "x&y", `q"uo'te`, "sp ace", "?k=v&z=1", "http://h.example/p?a=b#f",
	"</script>", `\back\\slash`, "unié  z", "a,b c", "-->", "]]>", "javascript:alert(1)",
	"\x00\x01\x7f", "tab\tnl\nret\r", "<!--", "&amp;&lt;", "%41%zz", "+plus+", "a=b&c=d", "#frag", "/path/seg/", "*md* _e_ `c` [l](u)",
	"# head\n\n* li", "émoji😀", "'", `"`, "<", "&", "end?", "end&", "long" + strings.Repeat("<&\"'>", 12),
}

type gen struct {
	s    *choice.Stream
	o    Options
	set  *Set
	nmac int
	nvar int
	feat map[string]bool
	// names of value globals by kind
	macros   map[string][]macro // file -> macros declared so far (usable in that file)
	partials int
	cur      string
}

type macro struct {
	name   string
	param  string // "" or "string" or "int"
	format string // "", "html", "markdown", "js", "css", "json", "string"
	ctxFmt string // format of the file it is declared in
}

func (g *gen) feature(name string, num, den int) bool {
	if v, ok := g.feat[name]; ok {
		return v
	}
	var on bool
	if g.o.Feature != nil {
		on = g.o.Feature(name, num, den)
	} else {
		on = g.s.Chance(num, den)
	}
	g.feat[name] = on
	if on {
		g.set.Features = append(g.set.Features, name)
	}
	return on
}

// value kinds
const (
	kString = iota
	kInt
	kFloat
	kBool
	kBytes
	kHTML
	kMarkdown
	kJS
	kJSON
	kCSS
	kStrSlice
	kIntSlice
	kMap
	kStruct
	kAnyMap
	kStringer
	kError
)

// Struct is the struct type of the "st" globals.
type Struct struct {
	A string
	B int
	C []string `json:"c"`
}

func (g *gen) declareGlobals() {
	g.set.Globals, g.set.Vars = DrawVars(g.s)
}

// FreshVars returns a copy of vars in which the pointer-passed variables
// (pcnt, er) point to fresh copies of their current values, so that a run
// cannot influence the inputs of another one.
func FreshVars(vars map[string]any) map[string]any {
	out := make(map[string]any, len(vars))
	for k, v := range vars {
		switch p := v.(type) {
		case *int:
			c := *p
			out[k] = &c
		case *error:
			c := *p
			out[k] = &c
		default:
			out[k] = v
		}
	}
	return out
}

// DrawVars draws the declarations of the global variables ((*T)(nil), to be
// initialised per run) and one assignment of run values for them. The names
// and types are fixed; only the values depend on the stream.
func DrawVars(s *choice.Stream) (native.Declarations, map[string]any) {
	globals := native.Declarations{}
	vars := map[string]any{}
	pickS := func() string { return Strings[s.N(len(Strings))] }
	decl := func(name string, ptr any, val any) {
		globals[name] = ptr
		vars[name] = val
	}
	decl("s1", (*string)(nil), pickS())
	decl("s2", (*string)(nil), pickS())
	decl("s3", (*string)(nil), pickS())
	decl("n1", (*int)(nil), s.Range(-3, 1000))
	decl("f1", (*float64)(nil), float64(s.Range(-20, 20))/4)
	decl("b1", (*bool)(nil), s.Bool())
	decl("bs", (*[]byte)(nil), []byte(pickS()+pickS()))
	decl("vht", (*native.HTML)(nil), native.HTML("<i>"+pickS()+"</i>"))
	decl("vmd", (*native.Markdown)(nil), native.Markdown("# "+pickS()+"\n\ntext *"+pickS()+"*\n"))
	decl("vjs", (*native.JS)(nil), native.JS("f("+fmt.Sprint(s.N(9))+")"))
	decl("vjsn", (*native.JSON)(nil), native.JSON(`{"k":`+fmt.Sprint(s.N(9))+`}`))
	decl("vcss", (*native.CSS)(nil), native.CSS("red"))
	n := s.Range(0, 4)
	sl := make([]string, n)
	for i := range sl {
		sl[i] = pickS()
	}
	decl("sl", (*[]string)(nil), sl)
	n = s.Range(0, 4)
	ns := make([]int, n)
	for i := range ns {
		ns[i] = s.Range(-5, 99)
	}
	decl("ns", (*[]int)(nil), ns)
	m := map[string]int{}
	for i, n := 0, s.Range(0, 3); i < n; i++ {
		m[pickS()] = s.N(50)
	}
	decl("m", (*map[string]int)(nil), m)
	decl("st", (*Struct)(nil), Struct{A: pickS(), B: s.N(100), C: []string{pickS()}})
	am := map[string]any{"a": []int{1, s.N(9)}, "b": pickS(), "c": map[string]any{"d": pickS(), "e": nil}, "f": 1.5, "g": true}
	decl("am", (*map[string]any)(nil), am)
	decl("sg", (*Stringer)(nil), Stringer{S: pickS()})
	ev := error(errors.New(pickS()))
	decl("er", (*error)(nil), &ev) // interface-typed variables can only be passed by pointer
	// cnt is assigned by templates: passed by value it must be copied per
	// run, pcnt is passed by pointer and is shared with the caller.
	decl("cnt", (*int)(nil), s.N(10))
	pc := s.N(10)
	decl("pcnt", (*int)(nil), &pc)
	return globals, vars
}

// vals returns an expression of one of the given kinds.
func (g *gen) val(kinds ...int) string {
	k := kinds[g.s.N(len(kinds))]
	switch k {
	case kString:
		switch g.s.N(6) {
		case 0:
			return "s1"
		case 1:
			return "s2"
		case 2:
			return "s3"
		case 3:
			return fmt.Sprintf("%q", Strings[g.s.N(len(Strings))])
		case 4:
			return "s1 + s2"
		default:
			return "s2"
		}
	case kInt:
		if g.s.Bool() {
			return "n1"
		}
		return fmt.Sprint(g.s.Range(-9, 99999))
	case kFloat:
		return "f1"
	case kBool:
		return "b1"
	case kBytes:
		return "bs"
	case kHTML:
		return "vht"
	case kMarkdown:
		return "vmd"
	case kJS:
		return "vjs"
	case kJSON:
		return "vjsn"
	case kCSS:
		return "vcss"
	case kStrSlice:
		return "sl"
	case kIntSlice:
		return "ns"
	case kMap:
		return "m"
	case kStruct:
		return "st"
	case kAnyMap:
		return "am"
	case kStringer:
		return "sg"
	case kError:
		return "er"
	}
	return "s1"
}

var texts = []string{
	"text ", "\n", "<p>para</p>", "<br>", "line one\nline two\n", "  ", "&amp; ", "<!-- c -->", "<b>bold</b>", "x",
}

func (g *gen) text() string { return texts[g.s.N(len(texts))] }

func (g *gen) show(expr string) string {
	if g.s.Chance(1, 6) {
		return "{% show " + expr + " %}"
	}
	return "{{ " + expr + " }}"
}

// url returns the content of a URL attribute value.
func (g *gen) url() string {
	var b strings.Builder
	n := g.s.Range(1, 5)
	for i := 0; i < n; i++ {
		switch g.s.N(9) {
		case 0, 1, 2:
			b.WriteString(g.show(g.val(kString, kString, kInt, kStringer)))
		case 3:
			b.WriteString("/path/")
		case 4:
			b.WriteString("?q=")
		case 5:
			b.WriteString("&k=")
		case 6:
			b.WriteString("?")
		case 7:
			b.WriteString("#f")
		case 8:
			b.WriteString("a=b")
		}
	}
	return b.String()
}

func (g *gen) jsBody(depth int) string {
	var b strings.Builder
	n := g.s.Range(1, 4)
	for i := 0; i < n; i++ {
		switch g.s.N(7) {
		case 0:
			fmt.Fprintf(&b, "var a%d = %s;\n", i, g.show(g.val(kString, kInt, kFloat, kBool, kBytes, kJS, kJSON, kStrSlice, kIntSlice, kMap, kStruct, kAnyMap)))
		case 1:
			fmt.Fprintf(&b, "var s%d = \"pre%spost\";\n", i, g.show(g.val(kString, kInt, kStringer)))
		case 2:
			fmt.Fprintf(&b, "var t%d = '%s';\n", i, g.show(g.val(kString, kInt)))
		case 3:
			b.WriteString("f();\n")
		case 4:
			if depth < 2 {
				fmt.Fprintf(&b, "{%% if %s %%}%s{%% end %%}", g.cond(), g.jsBody(depth+1))
			}
		case 5:
			fmt.Fprintf(&b, "var m%d = [%s, %s];\n", i, g.show(g.val(kStruct, kAnyMap, kMap)), g.show(g.val(kStrSlice, kIntSlice)))
		case 6:
			if c := g.macroCall("js"); c != "" {
				b.WriteString(c)
			}
		}
	}
	return b.String()
}

func (g *gen) jsonBody() string {
	var b strings.Builder
	b.WriteString("{")
	n := g.s.Range(1, 4)
	for i := 0; i < n; i++ {
		if i > 0 {
			b.WriteString(", ")
		}
		switch g.s.N(3) {
		case 0:
			fmt.Fprintf(&b, "\"k%d\": %s", i, g.show(g.val(kString, kInt, kFloat, kBool, kBytes, kJSON, kStrSlice, kIntSlice, kMap, kStruct, kAnyMap)))
		case 1:
			fmt.Fprintf(&b, "\"k%d\": \"x%sy\"", i, g.show(g.val(kString, kInt)))
		case 2:
			fmt.Fprintf(&b, "\"k%d\": [%s, 1]", i, g.show(g.val(kAnyMap, kStruct, kStrSlice)))
		}
	}
	b.WriteString("}")
	return b.String()
}

func (g *gen) cssBody() string {
	var b strings.Builder
	n := g.s.Range(1, 4)
	for i := 0; i < n; i++ {
		switch g.s.N(4) {
		case 0:
			fmt.Fprintf(&b, "a%d { color: %s; }\n", i, g.show(g.val(kString, kInt, kFloat, kCSS, kBytes)))
		case 1:
			fmt.Fprintf(&b, "b%d { font-family: \"%s\"; }\n", i, g.show(g.val(kString, kInt)))
		case 2:
			fmt.Fprintf(&b, "c%d { content: '%s'; }\n", i, g.show(g.val(kString)))
		case 3:
			b.WriteString("d { x: y }\n")
		}
	}
	return b.String()
}

func (g *gen) mdBody(file string, depth int) string {
	var b strings.Builder
	n := g.s.Range(1, g.o.MaxPieces)
	for i := 0; i < n; i++ {
		switch g.s.N(9) {
		case 0:
			fmt.Fprintf(&b, "# Title %s\n\n", g.show(g.val(kString, kInt, kMarkdown, kHTML, kStringer, kError)))
		case 1:
			fmt.Fprintf(&b, "para %s more\n\n", g.show(g.val(kString, kFloat, kBool)))
		case 2:
			fmt.Fprintf(&b, "    code %s\n\n", g.show(g.val(kString, kInt)))
		case 3:
			fmt.Fprintf(&b, "\tcode %s\n\n", g.show(g.val(kString, kInt)))
		case 4:
			fmt.Fprintf(&b, "[link](%s)\n\n", g.show(g.val(kString)))
		case 5:
			b.WriteString("* item\n* item2\n\n")
		case 6:
			if depth < 2 {
				fmt.Fprintf(&b, "{%% for _, x := range sl %%}* %s\n{%% end %%}\n", g.show("x"))
			}
		case 7:
			if c := g.macroCall("markdown"); c != "" {
				b.WriteString(c + "\n\n")
			}
		case 8:
			b.WriteString("```\nfenced " + g.show(g.val(kString)) + "\n```\n\n")
		}
	}
	return b.String()
}

func (g *gen) textBody() string {
	var b strings.Builder
	n := g.s.Range(1, g.o.MaxPieces)
	for i := 0; i < n; i++ {
		switch g.s.N(4) {
		case 0:
			b.WriteString(g.text())
		case 1:
			b.WriteString(g.show(g.val(kString, kInt, kFloat, kBool, kStringer, kError)))
		case 2:
			fmt.Fprintf(&b, "{%% if %s %%}yes{%% else %%}no{%% end %%}", g.cond())
		case 3:
			if c := g.macroCall(""); c != "" {
				b.WriteString(c)
			}
		}
	}
	return b.String()
}

func (g *gen) cond() string {
	switch g.s.N(5) {
	case 0:
		return "b1"
	case 1:
		return "n1 > 10"
	case 2:
		return "len(sl) > 1"
	case 3:
		return "s1 == s2"
	default:
		return "true"
	}
}

// macroCall returns a call of a macro declared so far whose result can be
// shown in a context of the given format, or "".
func (g *gen) macroCall(ctxFormat string) string {
	file := g.cur
	var ok []macro
	for _, m := range g.macros[file] {
		f := m.format
		if f == "" {
			f = m.ctxFmt
		}
		switch {
		case f == ctxFormat:
			ok = append(ok, m)
		case f == "string":
			ok = append(ok, m)
		case ctxFormat == "html" && f == "markdown":
			ok = append(ok, m)
		case ctxFormat == "html" && (f == "js" || f == "css" || f == "json") && false:
		}
	}
	if len(ok) == 0 {
		return ""
	}
	m := ok[g.s.N(len(ok))]
	call := m.name + "("
	switch m.param {
	case "string":
		call += g.val(kString)
	case "int":
		call += g.val(kInt)
	}
	call += ")"
	return g.show(call)
}

func (g *gen) htmlBody(file string, depth int) string {
	var b strings.Builder
	n := g.s.Range(1, g.o.MaxPieces)
	for i := 0; i < n; i++ {
		switch g.s.N(22) {
		case 20:
			if g.feature("assign-global", 1, 2) {
				fmt.Fprintf(&b, "{%% cnt = cnt + %d %%}%s", 1+g.s.N(5), g.show("cnt"))
			}
		case 21:
			if g.feature("assign-global", 1, 2) {
				fmt.Fprintf(&b, "{%% pcnt = pcnt + n1 %%}%s", g.show("pcnt"))
			}
		case 0, 1:
			b.WriteString(g.text())
		case 2, 3:
			b.WriteString(g.show(g.val(kString, kString, kInt, kFloat, kBool, kBytes, kHTML, kStringer, kError)))
		case 4:
			fmt.Fprintf(&b, `<a href="%s">l</a>`, g.url())
		case 5:
			fmt.Fprintf(&b, `<img srcset="%s 1x, %s 2x">`, g.url(), g.url())
		case 6:
			fmt.Fprintf(&b, `<a href=%s>`, g.show(g.val(kString, kInt)))
		case 7:
			fmt.Fprintf(&b, `<div title="t %s" class="%s">`, g.show(g.val(kString, kInt, kFloat, kHTML, kStringer)), g.show(g.val(kString)))
		case 8:
			fmt.Fprintf(&b, `<div data-x=%s %s>`, g.show(g.val(kString, kInt)), g.show(g.val(kString)))
		case 9:
			fmt.Fprintf(&b, "<script>%s</script>", g.jsBody(depth))
		case 10:
			fmt.Fprintf(&b, `<script type="application/ld+json">%s</script>`, g.jsonBody())
		case 11:
			fmt.Fprintf(&b, "<style>%s</style>", g.cssBody())
		case 12:
			if depth < 2 {
				fmt.Fprintf(&b, "{%% if %s %%}%s{%% else %%}%s{%% end %%}", g.cond(), g.htmlBody(file, depth+1), g.text())
			}
		case 13:
			if depth < 2 {
				fmt.Fprintf(&b, "{%% for i, x := range sl %%}%s:%s;{%% end %%}", g.show("i"), g.show("x"))
			}
		case 14, 15:
			if c := g.macroCall("html"); c != "" {
				b.WriteString(c)
			}
		case 16:
			if g.feature("markdown-value", 1, 2) {
				g.set.UsesMarkdownConv = true
				b.WriteString(g.show("vmd"))
			}
		case 17:
			if p := g.partial(depth); p != "" {
				b.WriteString(p)
			}
		case 18:
			g.nvar++
			fmt.Fprintf(&b, "{%% var v%d = %s %%}%s", g.nvar, g.val(kString), g.show(fmt.Sprintf("v%d", g.nvar)))
		case 19:
			fmt.Fprintf(&b, `<button data-k="f(%s)" style="color: %s">`, g.show(g.val(kString, kInt)), g.show(g.val(kString, kCSS)))
		}
	}
	return b.String()
}

// partial generates a new partial file and returns the render expression.
func (g *gen) partial(depth int) string {
	if g.partials >= 3 || depth >= 2 {
		return ""
	}
	g.partials++
	saved := g.cur
	var name, body string
	if g.feature("render-markdown", 1, 3) && g.s.Bool() {
		name = fmt.Sprintf("part%d.md", g.partials)
		g.cur = name
		g.set.UsesMarkdownConv = true
		body = g.mdBody(name, depth+1)
	} else {
		name = fmt.Sprintf("part%d.html", g.partials)
		g.cur = name
		body = g.htmlBody(name, depth+1)
	}
	g.cur = saved
	g.set.Files[name] = body
	return `{{ render "` + name + `" }}`
}

// macroDecls generates macro declarations usable in file (format fileFmt).
func (g *gen) macroDecls(file, fileFmt string, n int) string {
	var b strings.Builder
	for i := 0; i < n; i++ {
		g.nmac++
		m := macro{name: fmt.Sprintf("M%d", g.nmac), ctxFmt: fileFmt}
		switch g.s.N(3) {
		case 1:
			m.param = "string"
		case 2:
			m.param = "int"
		}
		if g.feature("macro-format", 1, 2) {
			switch g.s.N(7) {
			case 1:
				m.format = "html"
			case 2:
				if g.feature("macro-markdown", 1, 2) {
					m.format = "markdown"
				}
			case 3:
				m.format = "js"
			case 4:
				m.format = "string"
			case 5:
				m.format = "css"
			case 6:
				m.format = "json"
			}
		}
		bodyFmt := m.format
		if bodyFmt == "" {
			bodyFmt = fileFmt
		} else if bodyFmt == "string" {
			bodyFmt = "text"
		}
		if m.format == "markdown" || (m.format == "" && fileFmt == "markdown") {
			g.set.UsesMarkdownConv = true
		}
		fmt.Fprintf(&b, "{%% macro %s", m.name)
		if m.param != "" {
			fmt.Fprintf(&b, "(p %s)", m.param)
		}
		if m.format != "" {
			b.WriteString(" " + m.format)
		}
		b.WriteString(" %}")
		if !g.o.NoDefer && g.feature("defer", 1, 3) && g.s.Chance(1, 3) {
			switch g.s.N(3) {
			case 0:
				b.WriteString("{% defer func() { recover() }() %}")
				g.set.Recovers = true
			case 1:
				b.WriteString("{% defer func() { _ = len(s1) }() %}")
			case 2:
				b.WriteString("{% defer func() { if e := recover(); e != nil { panic(e) } }() %}")
				g.set.Recovers = true
			}
		}
		saved := g.o.MaxPieces
		if g.o.MaxPieces > 4 {
			g.o.MaxPieces = 4
		}
		switch bodyFmt {
		case "html":
			b.WriteString(g.htmlBody(file, 1))
		case "markdown":
			b.WriteString(g.mdBody(file, 1))
		case "js":
			b.WriteString(g.jsBody(1))
		case "css":
			b.WriteString(g.cssBody())
		case "json":
			b.WriteString(g.jsonBody())
		default:
			b.WriteString(g.textBody())
		}
		g.o.MaxPieces = saved
		if m.param != "" {
			b.WriteString(g.show("p"))
		}
		b.WriteString("{% end macro %}\n")
		g.macros[file] = append(g.macros[file], m)
	}
	return b.String()
}

var extOf = map[string]string{"html": ".html", "markdown": ".md", "js": ".js", "css": ".css", "json": ".json", "text": ".txt"}

func (g *gen) body(file, format string) string {
	switch format {
	case "html":
		return g.htmlBody(file, 0)
	case "markdown":
		return g.mdBody(file, 0)
	case "js":
		return g.jsBody(0)
	case "css":
		return g.cssBody()
	case "json":
		return g.jsonBody()
	}
	return g.textBody()
}

// Gen generates a template set.
func Gen(s *choice.Stream, o Options) *Set {
	if o.MaxPieces == 0 {
		o.MaxPieces = 8
	}
	set := &Set{Files: map[string]string{}, Globals: native.Declarations{}, Vars: map[string]any{}}
	g := &gen{s: s, o: o, set: set, feat: map[string]bool{}, macros: map[string][]macro{}}
	g.declareGlobals()
	format := "html"
	if g.feature("non-html-main", 1, 3) {
		format = []string{"markdown", "js", "css", "json", "text", "markdown"}[s.N(6)]
	}
	set.Main = "index" + extOf[format]
	g.cur = set.Main
	var b strings.Builder
	extends := format == "html" && g.feature("extends", 1, 4)
	if extends {
		fmt.Fprintf(&b, "{%% extends %q %%}", "layout.html")
	}
	// imports
	if g.feature("import", 1, 3) {
		imp := "imp" + extOf[format]
		g.cur = imp
		decls := g.macroDecls(imp, format, s.Range(1, 3))
		set.Files[imp] = decls
		g.cur = set.Main
		if s.Bool() {
			fmt.Fprintf(&b, "{%% import %q %%}", imp)
			g.macros[set.Main] = append(g.macros[set.Main], g.macros[imp]...)
		} else {
			fmt.Fprintf(&b, "{%% import pk %q %%}", imp)
			for _, m := range g.macros[imp] {
				m.name = "pk." + m.name
				g.macros[set.Main] = append(g.macros[set.Main], m)
			}
		}
	}
	imported := len(g.macros[set.Main])
	if extends {
		layout := "layout.html"
		b.WriteString(g.macroDecls(set.Main, format, s.Range(1, 3)))
		// Body macro
		fmt.Fprintf(&b, "{%% macro Body %%}%s{%% end macro %%}\n", g.htmlBody(set.Main, 0))
		set.Files[set.Main] = b.String()
		// layout uses Body and the macros declared in main.
		g.macros[layout] = append([]macro{}, g.macros[set.Main][imported:]...)
		g.cur = layout
		var l strings.Builder
		l.WriteString("<html><head><title>" + g.show(g.val(kString)) + "</title></head><body>")
		l.WriteString(g.htmlBody(layout, 1))
		l.WriteString("{{ Body() }}")
		l.WriteString(g.htmlBody(layout, 1))
		l.WriteString("</body></html>")
		set.Files[layout] = l.String()
		return set
	}
	if g.feature("macros", 2, 3) {
		b.WriteString(g.macroDecls(set.Main, format, s.Range(1, 3)))
	}
	b.WriteString(g.body(set.Main, format))
	set.Files[set.Main] = b.String()
	return set
}
