//go:build verif

package sched

import (
	"fmt"
	"strings"
	"testing"

	"verifsim/choice"

	"github.com/open2b/scriggo"
)

const prog = `package main

func worker(id int, in chan int, out chan int) {
	for v := range in {
		out <- v * 2
	}
	out <- -id
}

func main() {
	in := make(chan int)
	out := make(chan int, 2)
	for i := 1; i <= 3; i++ {
		go worker(i, in, out)
	}
	go func() {
		for i := 1; i <= 6; i++ {
			in <- i
		}
		close(in)
	}()
	sum := 0
	done := 0
	a := make(chan int, 1)
	b := make(chan int, 1)
	a <- 1
	b <- 2
	x, y := 0, 0
	for i := 0; i < 2; i++ {
		select {
		case v := <-a:
			x = v
		case w := <-b:
			y = w
		}
	}
	for done < 3 {
		v := <-out
		if v < 0 {
			done++
		} else {
			sum += v
		}
	}
	println(sum, x, y)
}
`

func runOnce(t *testing.T, p *scriggo.Program, seed uint64, policy int) (string, string, Outcome, int) {
	var out strings.Builder
	var oc Outcome
	var trace string
	sw := 0
	Bubble(t, func() {
		s := New(choice.New(seed))
		s.Policy = policy
		var log []string
		s.Log = func(f string, a ...any) { log = append(log, fmt.Sprintf(f, a...)) }
		s.Spawn("0", func() {
			err := p.Run(&scriggo.RunOptions{Print: func(v any) { out.WriteString(fmt.Sprint(v)) }})
			if err != nil {
				out.WriteString("ERR " + err.Error())
			}
		})
		oc = s.Run(nil)
		trace = s.TraceHash()
		sw = s.Switches
		if oc.Kind != "done" {
			t.Logf("%v\n%s", oc, strings.Join(log, "\n"))
		}
	})
	return out.String(), trace, oc, sw
}

func TestSched(t *testing.T) {
	Install()
	p, err := scriggo.Build(scriggo.Files{"main.go": []byte(prog)}, &scriggo.BuildOptions{AllowGoStmt: true})
	if err != nil {
		t.Fatal(err)
	}
	traces := map[string]bool{}
	steps := 0
	for seed := uint64(0); seed < 400; seed++ {
		o, tr, oc, _ := runOnce(t, p, seed, int(seed%4))
		if oc.Kind != "done" || o != "42 1 2\n" {
			t.Fatalf("seed %d: %q %+v", seed, o, oc)
		}
		o2, tr2, _, _ := runOnce(t, p, seed, int(seed%4))
		if o2 != o || tr2 != tr {
			t.Fatalf("seed %d: not deterministic", seed)
		}
		traces[tr] = true
		steps += oc.Steps
	}
	t.Logf("distinct traces %d, avg steps %d", len(traces), steps/400)
}
