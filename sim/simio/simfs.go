// Package simio contains simulator-owned I/O seams: a recording, fault
// injecting file system.
package simio

import (
	"errors"
	"fmt"
	"io"
	"io/fs"
	"sort"
	"strings"
	"time"
)

// Call is one recorded file system call.
type Call struct {
	Op   string // Open, ReadFile, Format, ReadDir, Read, Stat, Close
	Name string
	Err  string
	N    int
}

// Fault describes what the simulated disk does to one call. The k-th call
// (1-based, counting every call of every kind) is affected.
type Fault struct {
	At   int    // call index, 0 = never
	Kind string // "error", "notfound", "short", "eof-with-data", "zero"
}

// FS is a recording in-memory file system.
type FS struct {
	Files map[string][]byte
	Calls []Call
	Fault Fault
	// Fired reports whether the fault was delivered.
	Fired bool
	// ShortReads makes every Read return at most one byte.
	ShortReads bool
	ncalls     int
	ErrInject  error
}

// New returns a file system over files.
func New(files map[string][]byte) *FS {
	return &FS{Files: files, ErrInject: errors.New("E: injected I/O error")}
}

func (f *FS) rec(op, name string, err error, n int) {
	c := Call{Op: op, Name: name, N: n}
	if err != nil {
		c.Err = err.Error()
	}
	f.Calls = append(f.Calls, c)
}

// fault reports the fault for the current call, if any.
func (f *FS) fault() string {
	f.ncalls++
	if f.Fault.At != 0 && f.ncalls == f.Fault.At {
		f.Fired = true
		return f.Fault.Kind
	}
	return ""
}

// Open implements fs.FS.
func (f *FS) Open(name string) (fs.File, error) {
	switch f.fault() {
	case "error":
		err := &fs.PathError{Op: "open", Path: name, Err: f.ErrInject}
		f.rec("Open", name, err, 0)
		return nil, err
	case "notfound":
		err := &fs.PathError{Op: "open", Path: name, Err: fs.ErrNotExist}
		f.rec("Open", name, err, 0)
		return nil, err
	}
	if !fs.ValidPath(name) {
		err := &fs.PathError{Op: "open", Path: name, Err: fs.ErrInvalid}
		f.rec("Open", name, err, 0)
		return nil, err
	}
	data, ok := f.Files[name]
	if !ok {
		if ents := f.dirEntries(name); ents != nil {
			f.rec("Open", name, nil, len(ents))
			return &dir{fs: f, name: name, ents: ents}, nil
		}
		err := &fs.PathError{Op: "open", Path: name, Err: fs.ErrNotExist}
		f.rec("Open", name, err, 0)
		return nil, err
	}
	f.rec("Open", name, nil, len(data))
	return &file{fs: f, name: name, data: data}, nil
}

// dirEntries returns the entries of the directory name ("." is the root),
// sorted by name, or nil if no file lies below it.
func (f *FS) dirEntries(name string) []fs.DirEntry {
	prefix := name + "/"
	if name == "." {
		prefix = ""
	}
	seen := map[string]bool{}
	var ents []fs.DirEntry
	for n, data := range f.Files {
		if !strings.HasPrefix(n, prefix) {
			continue
		}
		rest := n[len(prefix):]
		if i := strings.IndexByte(rest, '/'); i >= 0 {
			if d := rest[:i]; !seen[d] {
				seen[d] = true
				ents = append(ents, dirEntry{info{name: d, dir: true}})
			}
		} else if !seen[rest] {
			seen[rest] = true
			ents = append(ents, dirEntry{info{name: rest, size: int64(len(data))}})
		}
	}
	sort.Slice(ents, func(i, j int) bool { return ents[i].Name() < ents[j].Name() })
	return ents
}

type dirEntry struct{ i info }

func (d dirEntry) Name() string               { return d.i.name }
func (d dirEntry) IsDir() bool                { return d.i.dir }
func (d dirEntry) Type() fs.FileMode          { return d.i.Mode().Type() }
func (d dirEntry) Info() (fs.FileInfo, error) { return d.i, nil }

// dir is an open directory (fs.ReadDirFile).
type dir struct {
	fs   *FS
	name string
	ents []fs.DirEntry
	off  int
}

func (d *dir) Stat() (fs.FileInfo, error) {
	if k := d.fs.fault(); k == "error" || k == "notfound" {
		err := &fs.PathError{Op: "stat", Path: d.name, Err: d.fs.ErrInject}
		d.fs.rec("Stat", d.name, err, 0)
		return nil, err
	}
	d.fs.rec("Stat", d.name, nil, 0)
	return info{name: d.name, dir: true}, nil
}

func (d *dir) Read([]byte) (int, error) {
	err := &fs.PathError{Op: "read", Path: d.name, Err: errors.New("is a directory")}
	d.fs.rec("Read", d.name, err, 0)
	return 0, err
}

func (d *dir) ReadDir(n int) ([]fs.DirEntry, error) {
	switch k := d.fs.fault(); k {
	case "error", "notfound":
		err := &fs.PathError{Op: "readdir", Path: d.name, Err: d.fs.ErrInject}
		if k == "error" {
			// not the "readdir" operation the loader treats as "no such
			// package": a plain I/O error
			err.Op = "read"
		}
		d.fs.rec("ReadDir", d.name, err, 0)
		return nil, err
	case "short", "zero", "eof-with-data":
		// a short listing: the first entry only (then the rest)
		if n <= 0 && len(d.ents)-d.off > 1 {
			out := d.ents[d.off : d.off+1]
			d.off++
			d.fs.rec("ReadDir", d.name, nil, 1)
			return out, nil
		}
	}
	rest := d.ents[d.off:]
	if n > 0 {
		if len(rest) == 0 {
			d.fs.rec("ReadDir", d.name, io.EOF, 0)
			return nil, io.EOF
		}
		if n < len(rest) {
			rest = rest[:n]
		}
	}
	d.off += len(rest)
	d.fs.rec("ReadDir", d.name, nil, len(rest))
	return rest, nil
}

func (d *dir) Close() error {
	d.fs.rec("Close", d.name, nil, 0)
	return nil
}

type file struct {
	fs   *FS
	name string
	data []byte
	off  int
}

type info struct {
	name string
	size int64
	dir  bool
}

func (i info) Name() string { return i.name }
func (i info) Size() int64  { return i.size }
func (i info) Mode() fs.FileMode {
	if i.dir {
		return fs.ModeDir | 0o555
	}
	return 0o444
}
func (i info) ModTime() time.Time { return time.Time{} }
func (i info) IsDir() bool        { return i.dir }
func (i info) Sys() any           { return nil }

func (fl *file) Stat() (fs.FileInfo, error) {
	if k := fl.fs.fault(); k == "error" || k == "notfound" {
		err := &fs.PathError{Op: "stat", Path: fl.name, Err: fl.fs.ErrInject}
		fl.fs.rec("Stat", fl.name, err, 0)
		return nil, err
	}
	fl.fs.rec("Stat", fl.name, nil, 0)
	return info{name: fl.name, size: int64(len(fl.data))}, nil
}

func (fl *file) Read(p []byte) (int, error) {
	k := fl.fs.fault()
	switch k {
	case "error", "notfound":
		err := &fs.PathError{Op: "read", Path: fl.name, Err: fl.fs.ErrInject}
		fl.fs.rec("Read", fl.name, err, 0)
		return 0, err
	case "zero":
		fl.fs.rec("Read", fl.name, nil, 0)
		if len(p) == 0 {
			return 0, nil
		}
		// A zero-byte read without error is allowed by io.Reader (discouraged);
		// deliver it once.
		return 0, nil
	}
	if fl.off >= len(fl.data) {
		fl.fs.rec("Read", fl.name, io.EOF, 0)
		return 0, io.EOF
	}
	n := copy(p, fl.data[fl.off:])
	if (fl.fs.ShortReads || k == "short") && n > 1 {
		n = 1
	}
	fl.off += n
	if k == "eof-with-data" && fl.off >= len(fl.data) {
		fl.fs.rec("Read", fl.name, io.EOF, n)
		return n, io.EOF
	}
	fl.fs.rec("Read", fl.name, nil, n)
	return n, nil
}

func (fl *file) Close() error {
	if k := fl.fs.fault(); k == "error" {
		err := &fs.PathError{Op: "close", Path: fl.name, Err: fl.fs.ErrInject}
		fl.fs.rec("Close", fl.name, err, 0)
		return err
	}
	fl.fs.rec("Close", fl.name, nil, 0)
	return nil
}

// ReadFileFS adds ReadFile to FS.
type ReadFileFS struct{ *FS }

// ReadFile implements fs.ReadFileFS.
func (f ReadFileFS) ReadFile(name string) ([]byte, error) {
	switch f.fault() {
	case "error":
		err := &fs.PathError{Op: "readfile", Path: name, Err: f.ErrInject}
		f.rec("ReadFile", name, err, 0)
		return nil, err
	case "notfound":
		err := &fs.PathError{Op: "readfile", Path: name, Err: fs.ErrNotExist}
		f.rec("ReadFile", name, err, 0)
		return nil, err
	}
	if !fs.ValidPath(name) {
		err := &fs.PathError{Op: "readfile", Path: name, Err: fs.ErrInvalid}
		f.rec("ReadFile", name, err, 0)
		return nil, err
	}
	data, ok := f.Files[name]
	if !ok {
		err := &fs.PathError{Op: "readfile", Path: name, Err: fs.ErrNotExist}
		f.rec("ReadFile", name, err, 0)
		return nil, err
	}
	f.rec("ReadFile", name, nil, len(data))
	return append([]byte(nil), data...), nil
}

// Reads returns the names whose content was successfully delivered, in
// order (a name appears once per successful delivery).
func (f *FS) Reads() []string {
	var out []string
	open := map[string]bool{}
	for _, c := range f.Calls {
		switch c.Op {
		case "ReadFile":
			if c.Err == "" {
				out = append(out, c.Name)
			}
		case "Open":
			if c.Err == "" {
				open[c.Name] = true
			}
		case "Read":
			// delivery completes at EOF
			if c.Err == io.EOF.Error() && open[c.Name] {
				out = append(out, c.Name)
				open[c.Name] = false
			}
		}
	}
	return out
}

// Requested returns every name passed to Open or ReadFile.
func (f *FS) Requested() []string {
	var out []string
	for _, c := range f.Calls {
		if c.Op == "Open" || c.Op == "ReadFile" {
			out = append(out, c.Name)
		}
	}
	return out
}

func (f *FS) String() string {
	s := ""
	for i, c := range f.Calls {
		s += fmt.Sprintf("%d:%s(%s)", i+1, c.Op, c.Name)
		if c.Err != "" {
			s += "=" + c.Err
		}
		s += " "
	}
	return s
}
