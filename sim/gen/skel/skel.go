// Package skel generates sequential "skeleton" programs: a call tree of
// functions, methods, closures, deferred calls and native callbacks whose
// bodies are sequences of observable actions, one per source line, so that a
// line number identifies an action. Every statement id equals
// 1000*fileIndex + line (file 0 = main.go, file 1 = sub1/sub1.go).
package skel

import (
	"fmt"
	"strings"

	"verifsim/choice"
)

// Prog is a generated program.
type Prog struct {
	Files map[string]string
	// DeferredPoints are the ids of `defer h.Point(id)` statements (their
	// panic position is not checked: the statement is silent about whether a
	// deferred native call is located at the defer or at the return).
	DeferredPoints map[int]bool
	// RepanicPoints are the ids of `panic(r)` statements that panic again
	// with a recovered value (the position of such a panic is the line of
	// that statement, not the one its value names).
	RepanicPoints map[int]bool
	Features      []string
	Stmts         int
}

// FileOf returns the file path of a statement id.
func FileOf(id int) string {
	if id >= 1000 {
		return "sub1/sub1.go"
	}
	return "main.go"
}

// LineOf returns the line of a statement id.
func LineOf(id int) int { return id % 1000 }

// Options select generator behaviour.
type Options struct {
	Feature func(name string, num, den int) bool
	// DeferPkgFunc allows `defer pkg.F()` of a function of an imported
	// Scriggo package (feature "defer-pkg-func"), which the compiler does not
	// implement: only the build-robustness check (C04) enables it.
	DeferPkgFunc bool
	// GoNative allows `go h.Async(id)` (feature "go-native"): a native
	// function started as a goroutine. Only checks that run the program under
	// the scheduler, with AllowGoStmt, enable it.
	GoNative bool
}

type builder struct {
	lines []string
	file  int
}

func (b *builder) id() int { return b.file*1000 + len(b.lines) + 1 }

func (b *builder) emit(indent int, format string, args ...any) {
	b.lines = append(b.lines, strings.Repeat("\t", indent)+fmt.Sprintf(format, args...))
}

type gen struct {
	s      *choice.Stream
	o      Options
	p      *Prog
	feat   map[string]bool
	budget int
	nfuncs int
	nmeth  int
	nsub   int
	inSub  bool
	inDef  int // lexical nesting inside deferred closures
}

func (g *gen) feature(name string, num, den int) bool {
	if v, ok := g.feat[name]; ok {
		return v
	}
	var on bool
	if g.o.Feature != nil {
		on = g.o.Feature(name, num, den)
	} else {
		on = g.s.Chance(num, den)
	}
	g.feat[name] = on
	if on {
		g.p.Features = append(g.p.Features, name)
	}
	return on
}

// body emits 1..max statements. fn is the index of the enclosing function
// (callees have larger indices; main is 0), depth the nesting of closures.
func (g *gen) body(b *builder, ind, fn, depth int, deferred bool) {
	s := g.s
	n := s.Range(1, 5)
	if deferred && s.Chance(2, 3) {
		b.emit(ind, "h.Rec(%d, recover())", b.id())
		g.budget--
	}
	for i := 0; i < n && g.budget > 0; i++ {
		g.budget--
		g.p.Stmts++
		if deferred && s.Chance(1, 5) {
			// recover() after other statements of the deferred function (for
			// instance after one of its own defer statements)
			b.emit(ind, "h.Rec(%d, recover())", b.id())
			continue
		}
		switch s.Pick(6, 2, 2, 4, 3, 3, 1, 2, 2, 1, 1, 2, 2, 4) {
		case 13:
			if depth < 2 && g.feature("panic-stmt", 3, 4) && g.feature("panic-ladder", 1, 2) {
				g.ladder(b, ind)
			} else {
				b.emit(ind, "h.Point(%d)", b.id())
			}
		case 12:
			if g.o.GoNative && !g.inSub && g.feature("go-native", 1, 2) {
				b.emit(ind, "go h.Async(%d)", b.id())
				if s.Bool() {
					b.emit(ind, "go h.Async(%d)", b.id())
				}
			} else {
				b.emit(ind, "h.Point(%d)", b.id())
			}
		case 11:
			if !g.inSub && g.feature("globals", 1, 2) {
				b.emit(ind, "gv += %d; println(%d, gv)", 1+s.N(7), b.id())
			} else {
				b.emit(ind, "h.Point(%d)", b.id())
			}
		case 0:
			b.emit(ind, "h.Point(%d)", b.id())
		case 1:
			if s.Bool() {
				b.emit(ind, "println(%d)", b.id())
			} else {
				b.emit(ind, "println(%d, a)", b.id())
			}
		case 2:
			if g.feature("defer-native", 1, 2) {
				g.p.DeferredPoints[b.id()] = true
				b.emit(ind, "defer h.Point(%d)", b.id())
			} else {
				b.emit(ind, "h.Point(%d)", b.id())
			}
		case 3:
			if depth < 3 {
				b.emit(ind, "defer func() {")
				g.inDef++
				g.body(b, ind+1, fn, depth+1, true)
				g.inDef--
				b.emit(ind, "}()")
				if deferred && s.Bool() {
					// recover() called while one of the deferred function's
					// own deferred calls is pending
					b.emit(ind, "h.Rec(%d, recover())", b.id())
				}
			}
		case 4:
			if g.feature("panic-stmt", 3, 4) && (g.inDef == 0 || g.feature("panic-in-deferred", 1, 2)) {
				switch s.N(3) {
				case 0:
					b.emit(ind, "panic(\"s%d\")", b.id())
				case 1:
					b.emit(ind, "panic(%d)", b.id())
				case 2:
					b.emit(ind, "panic(h.Err(%d))", b.id())
				}
			}
		case 5:
			g.call(b, ind, fn, "")
		case 6:
			if depth < 3 {
				b.emit(ind, "func() {")
				g.body(b, ind+1, fn, depth+1, false)
				b.emit(ind, "}()")
			}
		case 7:
			if depth < 3 && !g.inSub && g.feature("callback", 1, 2) {
				b.emit(ind, "h.Call(%d, func() {", b.id())
				b.emit(ind+1, "defer func() { h.Rec(%d, recover()) }()", b.id())
				g.body(b, ind+1, fn, depth+1, false)
				b.emit(ind, "})")
			}
		case 8:
			if g.feature("defer-func", 1, 2) {
				g.call(b, ind, fn, "defer ")
			}
		case 9:
			b.emit(ind, "if h.Yes(%d) {", b.id())
			b.emit(ind+1, "return")
			b.emit(ind, "}")
		case 10:
			b.emit(ind, "for i := 0; i < 2; i++ {")
			b.emit(ind+1, "h.Point(%d)", b.id())
			b.emit(ind, "}")
		}
	}
}

// ladder emits a function literal, called at once, that panics with two to
// four deferred closures pending, each of which recovers, panics again (a
// panic superseding the one in progress), does both, recovers a panic of its
// own in a nested call, or does nothing: the situations in which the chain of
// panics in progress grows and shrinks.
func (g *gen) ladder(b *builder, ind int) {
	s := g.s
	b.emit(ind, "func() {")
	g.inDef++
	for k, n := 0, s.Range(2, 4); k < n; k++ {
		b.emit(ind+1, "defer func() {")
		switch s.N(7) {
		case 0:
			b.emit(ind+2, "h.Rec(%d, recover())", b.id())
		case 1:
			b.emit(ind+2, "panic(\"s%d\")", b.id())
		case 2:
			b.emit(ind+2, "h.Rec(%d, recover())", b.id())
			b.emit(ind+2, "panic(%d)", b.id())
		case 3:
			b.emit(ind+2, "func() {")
			b.emit(ind+3, "defer func() { h.Rec(%d, recover()) }()", b.id())
			b.emit(ind+3, "panic(\"s%d\")", b.id())
			b.emit(ind+2, "}()")
			b.emit(ind+2, "h.Point(%d)", b.id())
		case 4:
			b.emit(ind+2, "h.Point(%d)", b.id())
		case 5:
			b.emit(ind+2, "defer func() { panic(h.Err(%d)) }()", b.id())
			b.emit(ind+2, "h.Rec(%d, recover())", b.id())
		case 6:
			b.emit(ind+2, "r := recover()")
			b.emit(ind+2, "h.Rec(%d, r)", b.id())
			b.emit(ind+2, "if r != nil {")
			g.p.RepanicPoints[b.id()] = true
			b.emit(ind+3, "panic(r)")
			b.emit(ind+2, "}")
		}
		b.emit(ind+1, "}()")
	}
	g.inDef--
	b.emit(ind+1, "h.Point(%d)", b.id())
	b.emit(ind+1, "panic(\"s%d\")", b.id())
	b.emit(ind, "}()")
}

// call emits a call (optionally deferred) to a function with a larger index,
// a method or a sub-package function.
func (g *gen) call(b *builder, ind, fn int, prefix string) {
	s := g.s
	var targets []string
	if !g.inSub {
		for j := fn + 1; j <= g.nfuncs; j++ {
			targets = append(targets, fmt.Sprintf("f%d(%%d)", j))
		}
		if fn <= g.nfuncs { // func-typed variables are callable from main and functions, not from each other
			for j := 1; j <= g.nmeth; j++ {
				targets = append(targets, fmt.Sprintf("v%d(%%d)", j))
			}
		}
		// `defer pkg.F()` of a Scriggo package function is not implemented
		// by the compiler (Build panics with an internal error; a C04
		// matter), so it is not generated here.
		for j := 1; j <= g.nsub && (prefix == "" || (g.o.DeferPkgFunc && g.feature("defer-pkg-func", 1, 2))); j++ {
			targets = append(targets, fmt.Sprintf("sub1.S%d(%%d)", j))
		}
	} else {
		for j := fn + 1; j <= g.nsub; j++ {
			targets = append(targets, fmt.Sprintf("S%d(%%d)", j))
		}
	}
	if len(targets) == 0 {
		b.emit(ind, "h.Point(%d)", b.id())
		return
	}
	t := targets[s.N(len(targets))]
	b.emit(ind, prefix+t, b.id())
}

// Gen generates a program.
func Gen(s *choice.Stream, o Options) *Prog {
	p := &Prog{Files: map[string]string{}, DeferredPoints: map[int]bool{}, RepanicPoints: map[int]bool{}}
	g := &gen{s: s, o: o, p: p, feat: map[string]bool{}, budget: 14 + s.N(30)}
	g.nfuncs = s.Range(0, 4)
	if g.feature("funcvars", 1, 2) {
		g.nmeth = s.Range(1, 2)
	}
	if g.feature("subpackage", 1, 3) {
		g.nsub = s.Range(1, 2)
	}
	b := &builder{}
	b.emit(0, "package main")
	b.emit(0, "")
	b.emit(0, "import (")
	b.emit(1, "\"h\"")
	if g.nsub > 0 {
		b.emit(1, "\"m/sub1\"")
	}
	b.emit(0, ")")
	b.emit(0, "")
	if g.nsub > 0 {
		b.emit(0, "var _ = sub1.S1")
	} else {
		b.emit(0, "var _ = h.Yes")
	}
	b.emit(0, "")
	b.emit(0, "var gv = 100")
	b.emit(0, "")
	// Func-typed package variables have index nfuncs+1.. so that they can call nothing but
	// sub-package functions; functions are emitted from the last to the
	// first so that shrinking keeps early ones simple.
	for j := 1; j <= g.nmeth; j++ {
		b.emit(0, "var v%d = func(a int) {", j)
		b.emit(1, "println(%d, a)", b.id())
		g.body(b, 1, g.nfuncs+1, 0, false)
		b.emit(0, "}")
		b.emit(0, "")
	}
	for j := g.nfuncs; j >= 1; j-- {
		b.emit(0, "func f%d(a int) {", j)
		g.body(b, 1, j, 0, false)
		b.emit(0, "}")
		b.emit(0, "")
	}
	b.emit(0, "func main() {")
	b.emit(1, "a := 0")
	b.emit(1, "_ = a")
	g.budget += 6
	g.body(b, 1, 0, 0, false)
	b.emit(1, "h.Point(%d)", b.id())
	b.emit(0, "}")
	p.Files["main.go"] = strings.Join(b.lines, "\n") + "\n"
	p.Files["go.mod"] = "module m\n"
	if g.nsub > 0 {
		sb := &builder{file: 1}
		g.inSub = true
		sb.emit(0, "package sub1")
		sb.emit(0, "")
		sb.emit(0, "import \"h\"")
		sb.emit(0, "")
		sb.emit(0, "var _ = h.Yes")
		sb.emit(0, "")
		for j := g.nsub; j >= 1; j-- {
			sb.emit(0, "func S%d(a int) {", j)
			g.budget += 3
			g.body(sb, 1, j, 0, false)
			sb.emit(0, "}")
			sb.emit(0, "")
		}
		g.inSub = false
		p.Files["sub1/sub1.go"] = strings.Join(sb.lines, "\n") + "\n"
	}
	return p
}

// GcH is the source of package h for the gc reference binary. The fault plan
// comes from the command line: args[2] = k (0 = none), args[3] = kind.
const GcH = `package h

import (
	"errors"
	"fmt"
	"os"
	"strconv"
)

var k int
var kind string
var count int

func init() {
	if len(os.Args) > 3 {
		k, _ = strconv.Atoi(os.Args[2])
		kind = os.Args[3]
	}
}

func out(s string) { os.Stderr.WriteString(s + "\n") }

func Point(id int) {
	count++
	out("P" + strconv.Itoa(id))
	if count == k {
		switch kind {
		case "ps":
			panic("hp" + strconv.Itoa(id))
		case "pi":
			panic(100000 + id)
		case "pe":
			panic(errors.New("he" + strconv.Itoa(id)))
		}
	}
}

func Fmt(v any) string {
	switch v := v.(type) {
	case nil:
		return "nil"
	case string:
		return "s:" + v
	case int:
		return "i:" + strconv.Itoa(v)
	case error:
		return "e:" + v.Error()
	}
	return fmt.Sprintf("?%T", v)
}

func Rec(id int, v any) { out("R" + strconv.Itoa(id) + ":" + Fmt(v)) }

func Call(id int, f func()) {
	out("C" + strconv.Itoa(id))
	f()
	out("c" + strconv.Itoa(id))
}

func Err(id int) error { return errors.New("e" + strconv.Itoa(id)) }

func Yes(id int) bool { return true }
`
