// C13 — a failing output writer aborts rendering with the writer's error.
//
// Seam: the io.Writer passed to Template.Run (optionally an io.StringWriter)
// and the Markdown converter. A fault-free render counts the write calls W;
// then for EVERY k in 1..W the k-th call fails with a fresh sentinel E, once
// as (0, E) and once as a short write (n, E), 0 < n < len.
package c13

import (
	"errors"
	"fmt"
	"io"
	"testing"

	"verifsim/gen/tmpl"
	"verifsim/harness"

	"github.com/open2b/scriggo"
	"github.com/open2b/scriggo/native"
)

func TestC13(t *testing.T) {
	loadCorpus()
	harness.Main(t, harness.Check{Prop: "C13", Exec: exec, ShrinkBudget: 250})
}

// core is the simulated writer.
type core struct {
	calls     int
	failAt    int // 0 = never
	short     bool
	err       error
	accepted  []byte
	failed    bool
	afterFail int
	strCalls  int
	sizes     []int
}

func (c *core) write(p []byte, viaString bool) (int, error) {
	c.calls++
	if viaString {
		c.strCalls++
	}
	if c.failed {
		c.afterFail++
		return 0, c.err
	}
	if c.calls == c.failAt {
		c.failed = true
		n := 0
		if c.short && len(p) > 1 {
			n = len(p) / 2
		}
		c.accepted = append(c.accepted, p[:n]...)
		return n, c.err
	}
	c.accepted = append(c.accepted, p...)
	if len(c.sizes) < 4096 {
		c.sizes = append(c.sizes, len(p))
	}
	return len(p), nil
}

type plainWriter struct{ c *core }

func (w plainWriter) Write(p []byte) (int, error) { return w.c.write(p, false) }

type stringWriter struct{ c *core }

func (w stringWriter) Write(p []byte) (int, error)       { return w.c.write(p, false) }
func (w stringWriter) WriteString(s string) (int, error) { return w.c.write([]byte(s), true) }

func writerOf(c *core, str bool) io.Writer {
	if str {
		return stringWriter{c}
	}
	return plainWriter{c}
}

// simConv is the simulated Markdown converter: it writes through to out in
// several pieces and returns whatever error out returned (as goldmark does).
func simConv(pieces int) scriggo.Converter {
	return func(src []byte, out io.Writer) error {
		if _, err := out.Write([]byte("<md>")); err != nil {
			return err
		}
		step := len(src)/pieces + 1
		for i := 0; i < len(src); i += step {
			j := i + step
			if j > len(src) {
				j = len(src)
			}
			if _, err := out.Write(src[i:j]); err != nil {
				return err
			}
		}
		_, err := out.Write([]byte("</md>"))
		return err
	}
}

type outcome struct {
	err      error
	panicked bool
	pval     any
	stack    string
}

func render(t *scriggo.Template, w io.Writer, vars map[string]any) outcome {
	var o outcome
	o.panicked, o.pval, o.stack = harness.Guard(func() { o.err = t.Run(w, vars, nil) })
	return o
}

func exec(r *harness.Run) *harness.Violation {
	s := r.S
	var set *tmpl.Set
	var pkgs native.Packages
	if r.Feature("corpus", 1, 6) {
		set = corpusAsSet(corpus[s.N(len(corpus))])
		pkgs = corpusPackages
		r.Count("artefact.corpus_template", 1)
	} else {
		set = tmpl.Gen(s, tmpl.Options{Feature: r.Feature})
		r.Count("artefact.generated_set", 1)
	}
	str := s.Bool()
	pieces := s.Range(1, 3)
	r.Artefact = map[string]any{"files": set.Files, "main": set.Main, "vars": fmt.Sprintf("%v", set.Vars), "string_writer": str, "recovers": set.Recovers}
	t, err := scriggo.BuildTemplate(scriggo.Files(set.FilesBytes()), set.Main, &scriggo.BuildOptions{Globals: set.Globals, Packages: pkgs, MarkdownConverter: simConv(pieces)})
	if err != nil {
		r.Count("skipped.build_error", 1)
		r.Logf("build error: %v", err)
		return nil
	}
	// Fault-free render.
	ref := &core{}
	o := render(t, writerOf(ref, str), tmpl.FreshVars(set.Vars))
	r.Evals(1)
	if o.panicked || o.err != nil {
		// Not a writer fault: outside this property (C05 territory). Recorded.
		r.Count("skipped.faultfree_failed", 1)
		r.Logf("fault-free run failed: panicked=%v %v err=%v", o.panicked, o.pval, o.err)
		return nil
	}
	W := ref.calls
	r.Logf("fault-free: %d writes, %d bytes, recovers=%v", W, len(ref.accepted), set.Recovers)
	if W == 0 {
		r.Count("skipped.no_writes", 1)
		return nil
	}
	r.Count("writes_total", W)
	if set.Recovers {
		r.Count("templates.recovering", 1)
	} else {
		r.Count("templates.strict", 1)
	}
	if set.UsesMarkdownConv {
		r.Count("probe.markdown_converter_in_play", 1)
	}
	ks := make([]int, 0, W)
	if W <= 400 {
		for k := 1; k <= W; k++ {
			ks = append(ks, k)
		}
	} else {
		r.Count("probe.more_than_400_writes", 1)
		for i := 0; i < 400; i++ {
			ks = append(ks, 1+s.N(W))
		}
	}
	key := set.Describe()
	for _, k := range ks {
		for mode := 0; mode < 2; mode++ {
			short := mode == 1
			if short && ref.sizes[min(k-1, len(ref.sizes)-1)] < 2 {
				continue
			}
			E := errors.New("E: injected write failure")
			c := &core{failAt: k, short: short, err: E}
			o := render(t, writerOf(c, str), tmpl.FreshVars(set.Vars))
			r.Evals(1)
			kind := "write-error"
			if short {
				kind = "short-write"
			}
			if !c.failed {
				// The fault-free render is deterministic, so call k must happen.
				return harness.Violf("nondeterministic-render", "fault at write %d/%d never fired (only %d writes happened)", k, W, c.calls)
			}
			r.Count("fault."+kind, 1)
			r.Distinct(fmt.Sprintf("%s|%d|%d", key, k, mode))
			ctx := fmt.Sprintf("%s at write call %d of %d (string writer: %v)", kind, k, W, str)
			if o.panicked {
				return harness.Violf("host-panic", "%s: Run panicked with %T %v\n%s", ctx, o.pval, o.pval, o.stack)
			}
			if set.Recovers {
				// The statement exempts templates that recover the panic.
				continue
			}
			if o.err != E {
				return harness.Violf("wrong-error", "%s: Run returned %T %v, want the writer's error itself", ctx, o.err, o.err)
			}
			if c.afterFail > 0 {
				return harness.Violf("write-after-failure", "%s: %d further write call(s) after the failing one", ctx, c.afterFail)
			}
			if len(c.accepted) > len(ref.accepted) || string(ref.accepted[:len(c.accepted)]) != string(c.accepted) {
				return harness.Violf("not-a-prefix", "%s: the %d bytes accepted before the failure are not a prefix of the fault-free output", ctx, len(c.accepted))
			}
		}
	}
	r.Sample(map[string]any{"main": set.Main, "files": len(set.Files), "writes": W, "fault_points": len(ks) * 2, "features": set.Features})
	return nil
}
