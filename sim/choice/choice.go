// Package choice is the single source of randomness of the simulator.
//
// A Stream is either generating (draws come from a SplitMix64 generator seeded
// by one integer and are recorded) or replaying (draws come from a recorded
// slice; beyond its end every draw is 0, which every decoder maps to the
// simplest option). A run is a pure function of (code under test, draws).
package choice

// Stream is a recorded/replayable sequence of bounded draws.
type Stream struct {
	state     uint64
	replay    []uint64
	pos       int
	replaying bool
	rec       []uint64
	// Marks records named positions in the draw sequence (phase boundaries);
	// it is informational (shrinker and replay files) and never draws.
	Marks []Mark
}

// Mark is a named offset in the draw sequence.
type Mark struct {
	Name string
	Pos  int
}

// New returns a generating stream seeded by seed.
func New(seed uint64) *Stream { return &Stream{state: seed} }

// Replay returns a stream that replays draws.
func Replay(draws []uint64) *Stream {
	return &Stream{replay: draws, replaying: true}
}

// Mix derives a run seed from a base seed, a property name and an index.
func Mix(seed uint64, prop string, i uint64) uint64 {
	h := seed ^ 0x9e3779b97f4a7c15
	for _, c := range []byte(prop) {
		h = (h ^ uint64(c)) * 0x100000001b3
	}
	h ^= i * 0xbf58476d1ce4e5b9
	return splitmix(&h)
}

func splitmix(s *uint64) uint64 {
	*s += 0x9e3779b97f4a7c15
	z := *s
	z = (z ^ (z >> 30)) * 0xbf58476d1ce4e5b9
	z = (z ^ (z >> 27)) * 0x94d049bb133111eb
	return z ^ (z >> 31)
}

// Draws returns the draws made so far (a copy).
func (s *Stream) Draws() []uint64 { return append([]uint64(nil), s.rec...) }

// Len returns the number of draws made so far.
func (s *Stream) Len() int { return len(s.rec) }

// Mark records a named position.
func (s *Stream) Mark(name string) { s.Marks = append(s.Marks, Mark{name, len(s.rec)}) }

// N returns a value in [0, n). n <= 1 returns 0 but still consumes a draw so
// that the draw sequence keeps its shape under shrinking.
func (s *Stream) N(n int) int {
	var v uint64
	if s.replaying {
		if s.pos < len(s.replay) {
			v = s.replay[s.pos]
		}
		s.pos++
	} else {
		v = splitmix(&s.state)
	}
	if n <= 1 {
		v = 0
	} else {
		v %= uint64(n)
	}
	s.rec = append(s.rec, v)
	return int(v)
}

// Range returns a value in [lo, hi].
func (s *Stream) Range(lo, hi int) int {
	if hi <= lo {
		s.N(1)
		return lo
	}
	return lo + s.N(hi-lo+1)
}

// Bool returns true with probability 1/2; the simplest option is false.
func (s *Stream) Bool() bool { return s.N(2) == 1 }

// Chance returns true with probability num/den; the simplest option is false.
func (s *Stream) Chance(num, den int) bool {
	return s.N(den) >= den-num
}

// Small returns a value in [0, max] biased towards small values.
func (s *Stream) Small(max int) int {
	if max <= 0 {
		s.N(1)
		return 0
	}
	// Two draws would change the shape; use one draw over a triangular table.
	// P(k) proportional to (max+1-k).
	tot := (max + 1) * (max + 2) / 2
	v := s.N(tot)
	for k := 0; k <= max; k++ {
		w := max + 1 - k
		if v < w {
			return k
		}
		v -= w
	}
	return 0
}

// Pick returns an index into weights chosen with probability proportional to
// the weight; index 0 is the simplest option.
func (s *Stream) Pick(weights ...int) int {
	tot := 0
	for _, w := range weights {
		tot += w
	}
	v := s.N(tot)
	for i, w := range weights {
		if v < w {
			return i
		}
		v -= w
	}
	return 0
}

// Shrink minimises draws while keep(draws) stays true. keep must be a pure
// function. budget bounds the number of keep calls. It returns the smallest
// slice found.
func Shrink(draws []uint64, budget int, keep func([]uint64) bool) []uint64 {
	cur := append([]uint64(nil), draws...)
	calls := 0
	try := func(c []uint64) bool {
		if calls >= budget {
			return false
		}
		calls++
		if keep(c) {
			cur = append([]uint64(nil), c...)
			return true
		}
		return false
	}
	// Trim trailing zeros first: they are implicit.
	trim := func() {
		for len(cur) > 0 && cur[len(cur)-1] == 0 {
			cur = cur[:len(cur)-1]
		}
	}
	trim()
	improved := true
	for improved && calls < budget {
		improved = false
		// Delete blocks.
		for size := len(cur) / 2; size >= 1; size /= 2 {
			for i := 0; i+size <= len(cur) && calls < budget; {
				c := append(append([]uint64(nil), cur[:i]...), cur[i+size:]...)
				if try(c) {
					improved = true
				} else {
					i += size
				}
			}
		}
		// Zero blocks.
		for size := len(cur) / 2; size >= 1; size /= 2 {
			for i := 0; i+size <= len(cur) && calls < budget; i += size {
				allZero := true
				for _, v := range cur[i : i+size] {
					if v != 0 {
						allZero = false
						break
					}
				}
				if allZero {
					continue
				}
				c := append([]uint64(nil), cur...)
				for j := i; j < i+size; j++ {
					c[j] = 0
				}
				if try(c) {
					improved = true
				}
			}
		}
		// Lower individual values.
		for i := 0; i < len(cur) && calls < budget; i++ {
			for cur[i] > 0 && calls < budget {
				c := append([]uint64(nil), cur...)
				c[i] = cur[i] / 2
				if try(c) {
					improved = true
					continue
				}
				c[i] = cur[i] - 1
				if c[i] != cur[i]/2 && try(c) {
					improved = true
					continue
				}
				break
			}
		}
		trim()
	}
	return cur
}

// RawPrefix returns the first n raw generator outputs for seed. Replaying them
// reproduces the generating run exactly as long as it makes at most n draws.
func RawPrefix(seed uint64, n int) []uint64 {
	st := seed
	out := make([]uint64, n)
	for i := range out {
		out[i] = splitmix(&st)
	}
	return out
}
