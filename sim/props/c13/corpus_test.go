package c13

import (
	"context"
	"fmt"
	"io"
	"io/fs"
	"math"
	"os"
	"path/filepath"
	"reflect"
	"sort"
	"strings"
	"time"

	"verifsim/gen/tmpl"
	"verifsim/harness"

	"github.com/open2b/scriggo"
	"github.com/open2b/scriggo/native"
)

// The repository's comparison corpus of templates (test/compare/testdata/
// templates, single files and .dir trees) as a second source of template
// sets: hand-written templates reach statements and contexts the generator
// does not. Only templates that build and render without a fault, in bounded
// time, with the packages below are used (the others are counted at load).

type truthy struct{ T bool }

func (t truthy) IsTrue() bool { return t.T }

type truthyPtr struct{ T bool }

func (t *truthyPtr) IsTrue() bool { return t.T }

var fixedNow = time.Date(2021, 3, 4, 5, 6, 7, 0, time.UTC)

var corpusPackages = native.Packages{
	"fmt": native.Package{Name: "fmt", Declarations: native.Declarations{
		"Sprint": fmt.Sprint, "Sprintf": fmt.Sprintf, "Sprintln": fmt.Sprintln, "Errorf": fmt.Errorf,
	}},
	"strings": native.Package{Name: "strings", Declarations: native.Declarations{
		"ToUpper": strings.ToUpper, "ToLower": strings.ToLower, "Repeat": strings.Repeat, "Join": strings.Join,
		"Split": strings.Split, "Contains": strings.Contains, "HasPrefix": strings.HasPrefix, "TrimSpace": strings.TrimSpace,
		"Title": strings.ToTitle, "Replace": strings.Replace, "Index": strings.Index,
	}},
	"math": native.Package{Name: "math", Declarations: native.Declarations{
		"Abs": math.Abs, "Sqrt": math.Sqrt, "Floor": math.Floor, "Pi": math.Pi, "MaxInt64": int64(math.MaxInt64), "Max": math.Max, "Min": math.Min, "Pow": math.Pow,
	}},
	"time": native.Package{Name: "time", Declarations: native.Declarations{
		"Time": reflect.TypeOf(time.Time{}), "Now": func() time.Time { return fixedNow }, "Duration": reflect.TypeOf(time.Duration(0)),
		"Second": time.Second,
	}},
	"github.com/open2b/scriggo/test/compare/testpkg": native.Package{Name: "testpkg", Declarations: native.Declarations{
		"True": reflect.TypeOf(truthy{}), "TruePtr": reflect.TypeOf(truthyPtr{}),
	}},
}

var corpusGlobals = native.Declarations{
	"MainSum": func(a, b int) int { return a + b },
}

type corpusSet struct {
	name  string
	files map[string][]byte
	root  string
}

var corpus []corpusSet
var corpusSkipped int

func loadCorpus() {
	if corpus != nil {
		return
	}
	repo := os.Getenv("VERIF_REPO")
	if repo == "" {
		repo = "/repo"
	}
	base := filepath.Join(repo, "test", "compare", "testdata", "templates")
	ents, err := os.ReadDir(base)
	if err != nil {
		harness.Fail("template corpus not found under %s: %v", base, err)
	}
	var names []string
	for _, e := range ents {
		if !e.IsDir() {
			names = append(names, e.Name())
		}
	}
	sort.Strings(names)
	for _, n := range names {
		ext := filepath.Ext(n)
		if ext != ".html" && ext != ".md" && ext != ".js" && ext != ".css" && ext != ".json" {
			continue
		}
		if strings.Contains(n, "endless") || n == "label.html" || n == "leading_text.html" { // do not terminate
			continue
		}
		data, err := os.ReadFile(filepath.Join(base, n))
		if err != nil {
			continue
		}
		cs := corpusSet{name: n, files: map[string][]byte{}, root: "index" + ext}
		cs.files[cs.root] = data
		dir := filepath.Join(base, strings.TrimSuffix(n, ext)+".dir")
		if st, err := os.Stat(dir); err == nil && st.IsDir() {
			filepath.WalkDir(dir, func(q string, d fs.DirEntry, err error) error {
				if err != nil || d.IsDir() {
					return nil
				}
				if b, err := os.ReadFile(q); err == nil {
					r, _ := filepath.Rel(dir, q)
					cs.files[filepath.ToSlash(r)] = b
				}
				return nil
			})
		}
		// Usable only if it builds and renders fault-free, twice the same, in
		// bounded time.
		t, err := scriggo.BuildTemplate(scriggo.Files(cs.files), cs.root, &scriggo.BuildOptions{Globals: corpusGlobals, Packages: corpusPackages, MarkdownConverter: simConv(2)})
		if err != nil {
			corpusSkipped++
			if os.Getenv("VERIF_CORPUS_DEBUG") != "" {
				fmt.Fprintf(os.Stderr, "corpus skip %s: build: %v\n", n, err)
			}
			continue
		}
		// The set must not depend on timing: a template that does not finish
		// in a minute is a harness error (exit 2), not a silently skipped one.
		ok := true
		var outs [2]string
		for i := 0; i < 2 && ok; i++ {
			ctx, cancel := context.WithTimeout(context.Background(), time.Minute)
			var b strings.Builder
			panicked, _, _ := harness.Guard(func() { err = t.Run(&b, nil, &scriggo.RunOptions{Context: ctx}) })
			cancel()
			if err == context.DeadlineExceeded {
				harness.Fail("corpus template %s does not terminate within a minute: add it to the exclusion list", n)
			}
			if panicked || err != nil {
				ok = false
			}
			outs[i] = b.String()
		}
		if !ok || outs[0] != outs[1] || outs[0] == "" {
			corpusSkipped++
			if os.Getenv("VERIF_CORPUS_DEBUG") != "" {
				fmt.Fprintf(os.Stderr, "corpus skip %s: run: ok=%v err=%v same=%v\n", n, ok, err, outs[0] == outs[1])
			}
			continue
		}
		corpus = append(corpus, cs)
	}
	if len(corpus) < 25 {
		harness.Fail("only %d usable corpus templates under %s (%d skipped)", len(corpus), base, corpusSkipped)
	}
}

// corpusAsSet presents a corpus template as a generated set.
func corpusAsSet(cs corpusSet) *tmpl.Set {
	set := &tmpl.Set{Files: map[string]string{}, Main: cs.root, Globals: corpusGlobals, Vars: map[string]any{}}
	for n, b := range cs.files {
		set.Files[n] = string(b)
		s := string(b)
		if strings.Contains(s, "recover()") {
			set.Recovers = true
		}
		if strings.HasSuffix(n, ".md") || strings.Contains(s, " markdown ") {
			set.UsesMarkdownConv = true
		}
	}
	set.Features = []string{"corpus:" + cs.name}
	return set
}

var _ io.Writer = plainWriter{}
