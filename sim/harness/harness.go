// Package harness is the worker side of the verification driver: it turns a
// per-property Exec function (one simulated run as a pure function of a choice
// stream) into a worker process that executes ranges of run indices, shrinks
// and records violations, matches known findings counterfactually, replays
// files and reports coverage statistics. The driver is bin/vcheck.
package harness

import (
	"bufio"
	"encoding/json"
	"fmt"
	"hash/fnv"
	"os"
	"os/exec"
	"path/filepath"
	"regexp"
	"runtime/debug"
	"sort"
	"strconv"
	"strings"
	"syscall"
	"testing"

	"verifsim/choice"
)

// Violation describes a property violation found by one run.
type Violation struct {
	Class    string `json:"class"`
	Detail   string `json:"detail"`
	Artefact any    `json:"artefact,omitempty"`
}

func (v *Violation) String() string { return v.Class + ": " + v.Detail }

// Violf builds a violation.
func Violf(class, format string, args ...any) *Violation {
	return &Violation{Class: class, Detail: Stable(fmt.Sprintf(format, args...))}
}

var addrRE = regexp.MustCompile(`0x[0-9a-fA-F]{6,}`)

// Stable replaces what differs from process to process in a formatted value
// (addresses printed for channels, functions, pointers and in stacks), so
// that event logs and violation details replay byte for byte.
func Stable(s string) string {
	if !strings.Contains(s, "0x") {
		return s
	}
	return addrRE.ReplaceAllString(s, "0x?")
}

// HarnessError is panicked by checks when the simulator itself is at fault
// (generator self-check failed, model mismatch). It makes the worker exit 2.
type HarnessError struct{ Msg string }

func (e HarnessError) Error() string { return "harness error: " + e.Msg }

// Fail panics with a HarnessError.
func Fail(format string, args ...any) {
	panic(HarnessError{fmt.Sprintf(format, args...)})
}

// Run is the context of one simulated run.
type Run struct {
	Prop     string
	Seed     uint64
	Index    int
	Tier     string
	S        *choice.Stream
	mask     map[string]bool
	w        *worker
	quiet    bool // statistics are discarded (shrinking, counterfactual runs)
	showOnly bool

	log      []string
	Artefact any // materialised artefact for replay files
}

// ShowOnly reports whether the check should only materialise its artefact
// (into r.Artefact) and return without executing it (VERIF_MODE=show of a
// run that would kill the process).
func (r *Run) ShowOnly() bool { return r.showOnly && os.Getenv("VERIF_SHOW_ONLY") != "" }

// Masked reports whether a generator feature is masked in this run
// (counterfactual known-finding matching).
func (r *Run) Masked(feature string) bool { return r.mask[feature] }

// Feature draws whether a generator feature is enabled in this run: enabled
// with probability num/den unless masked. The draw is made either way.
func (r *Run) Feature(name string, num, den int) bool {
	on := r.S.Chance(num, den)
	if r.mask[name] {
		return false
	}
	if on {
		r.Count("feature."+name, 1)
	}
	return on
}

// Logf appends a line to the run's deterministic event log.
func (r *Run) Logf(format string, args ...any) {
	if len(r.log) < 20000 {
		r.log = append(r.log, Stable(fmt.Sprintf(format, args...)))
	}
}

// LogHash returns a hash of the event log.
func (r *Run) LogHash() string {
	h := fnv.New64a()
	for _, l := range r.log {
		h.Write([]byte(l))
		h.Write([]byte{'\n'})
	}
	return fmt.Sprintf("%016x", h.Sum64())
}

// Log returns the event log.
func (r *Run) Log() []string { return r.log }

// Count adds n to a named counter (faults fired, probes, ...).
func (r *Run) Count(name string, n int) {
	if r.quiet {
		return
	}
	r.w.counters[name] += int64(n)
}

// Evals counts n evaluations (simulated executions of the code under test).
func (r *Run) Evals(n int) { r.Count("evaluations", n) }

// Distinct registers a non-trivial case by key; the driver counts the union.
func (r *Run) Distinct(key string) {
	if r.quiet {
		return
	}
	h := fnv.New64a()
	h.Write([]byte(key))
	if len(r.w.distinct) < 400000 {
		r.w.distinct[h.Sum64()] = struct{}{}
	} else {
		r.w.counters["distinct_overflow"]++
	}
}

// Sample offers a sample case for the evidence file (a few are kept).
func (r *Run) Sample(v any) {
	if r.quiet {
		return
	}
	if len(r.w.samples) < 3 {
		r.w.samples = append(r.w.samples, v)
	}
}

// Check describes a property check.
type Check struct {
	Prop string
	// Exec performs one simulated run. It must be a pure function of r.S (and
	// of the code under test) and must not keep state between calls.
	Exec func(r *Run) *Violation
	// ShrinkBudget is the number of re-executions allowed while minimising.
	ShrinkBudget int
	// FreshProcess declares that a violation of this property may depend on
	// state of the process (C30: what survives from earlier builds), so that
	// re-executing draws in the worker that found it proves nothing: the
	// violation is written unminimised, confirmed by the driver in a fresh
	// process and minimised there by executing candidates in child processes.
	FreshProcess bool
	// Retries is the number of extra attempts made when re-executing
	// recorded draws (0 for checks whose Exec is a pure function of the
	// draws; C22 sets it because Go's map order inside native.Package is
	// outside any seam).
	Retries int
	// Prepare, if set, is called once before a range of runs is executed.
	// mk(i) returns a fresh quiet Run for index i (same stream Exec will
	// see); it lets a check batch expensive reference computations (one gc
	// build for all programs of the range). Exec must not depend on it.
	// masks lists the feature masks (from the known findings; nil first)
	// under which runs may be re-executed.
	Prepare func(mk func(i int, mask map[string]bool) *Run, from, to int, masks []map[string]bool)
}

type worker struct {
	counters map[string]int64
	distinct map[uint64]struct{}
	samples  []any
}

// KnownFinding is one entry of /verif/known_findings.jsonl.
type KnownFinding struct {
	Property string `json:"property"`
	Name     string `json:"name"`
	Class    string `json:"class"`   // violation class to match
	Feature  string `json:"feature"` // generator feature whose masking must make it disappear ("" = none)
	Pattern  string `json:"pattern"` // regexp the violation detail must match ("" = any)
	What     string `json:"what"`
	Commit   string `json:"commit,omitempty"`
}

func loadKnown(prop string) []KnownFinding {
	path := os.Getenv("VERIF_KNOWN")
	if path == "" {
		return nil
	}
	f, err := os.Open(path)
	if err != nil {
		return nil
	}
	defer f.Close()
	var out []KnownFinding
	sc := bufio.NewScanner(f)
	sc.Buffer(make([]byte, 1<<20), 1<<20)
	for sc.Scan() {
		line := strings.TrimSpace(sc.Text())
		pre := "finding: property=" + prop + " "
		if !strings.HasPrefix(line, pre) {
			continue
		}
		var k KnownFinding
		if err := json.Unmarshal([]byte(line[len(pre):]), &k); err != nil {
			Fail("known_findings: %v", err)
		}
		k.Property = prop
		out = append(out, k)
	}
	return out
}

// ReplayFile is the on-disk form of a (minimised) failing run.
type ReplayFile struct {
	Property string   `json:"property"`
	Tier     string   `json:"tier"`
	Seed     uint64   `json:"seed"`
	BaseSeed uint64   `json:"base_seed"`
	Index    int      `json:"index"`
	Race     bool     `json:"race_binary"`
	Draws    []uint64 `json:"draws"`
	Class    string   `json:"class"`
	Detail   string   `json:"detail"`
	LogHash  string   `json:"log_hash"`
	Log      []string `json:"log,omitempty"`
	Artefact any      `json:"artefact,omitempty"`
	Crash    string   `json:"crash_output,omitempty"`
	Shrunk   bool     `json:"shrunk"`
	OrigLen  int      `json:"original_draws"`
}

func envInt(name string, def int) int {
	if s := os.Getenv(name); s != "" {
		v, err := strconv.ParseInt(s, 10, 64)
		if err != nil {
			Fail("bad %s: %v", name, err)
		}
		return int(v)
	}
	return def
}

func envU64(name string, def uint64) uint64 {
	if s := os.Getenv(name); s != "" {
		v, err := strconv.ParseUint(s, 10, 64)
		if err != nil {
			// accept negative ints
			w, err2 := strconv.ParseInt(s, 10, 64)
			if err2 != nil {
				Fail("bad %s: %v", name, err)
			}
			return uint64(w)
		}
		return v
	}
	return def
}

type outFile struct {
	f *os.File
}

func (o *outFile) line(format string, args ...any) {
	fmt.Fprintf(o.f, format+"\n", args...)
}

func (o *outFile) json(tag string, v any) {
	b, err := json.Marshal(v)
	if err != nil {
		Fail("marshal %s: %v", tag, err)
	}
	fmt.Fprintf(o.f, "%s %s\n", tag, b)
}

// Main runs the worker protocol for a check. It is called from a Test
// function (test binaries are the workers because testing/synctest needs a
// *testing.T).
func Main(t *testing.T, c Check) {
	if mb := envInt("VERIF_MEM_LIMIT_MB", 0); mb > 0 {
		// Address-space limit of this worker: an allocation of gigabytes by
		// the code under test fails at once ("fatal error: out of memory",
		// triaged by the driver as a crash of the run in progress) instead
		// of exhausting the machine.
		lim := syscall.Rlimit{Cur: uint64(mb) << 20, Max: uint64(mb) << 20}
		if err := syscall.Setrlimit(syscall.RLIMIT_AS, &lim); err != nil {
			t.Fatalf("setrlimit: %v", err)
		}
	}
	mode := os.Getenv("VERIF_MODE")
	if mode == "" {
		// Plain `go test`: a small smoke range, failing the test on violation.
		smoke(t, c)
		return
	}
	outPath := os.Getenv("VERIF_OUT")
	f, err := os.OpenFile(outPath, os.O_CREATE|os.O_WRONLY|os.O_APPEND, 0o644)
	if err != nil {
		t.Fatalf("open VERIF_OUT: %v", err)
	}
	defer f.Close()
	out := &outFile{f}
	defer func() {
		if e := recover(); e != nil {
			out.line("HARNESS-ERROR %s", strings.ReplaceAll(fmt.Sprint(e), "\n", " | "))
			out.line("STACK %s", strings.ReplaceAll(string(debug.Stack()), "\n", " | "))
			f.Sync()
			os.Exit(2)
		}
	}()
	w := &worker{counters: map[string]int64{}, distinct: map[uint64]struct{}{}}
	if c.ShrinkBudget == 0 {
		c.ShrinkBudget = 300
	}
	switch mode {
	case "range":
		runRange(c, w, out)
	case "replay":
		runReplay(c, w, out)
	case "exec1":
		// Execute one draws file; used by crash shrinking. Exit status and
		// the END line are the result.
		var rf ReplayFile
		readJSON(os.Getenv("VERIF_REPLAY"), &rf)
		r := newRun(c, w, rf.Seed, rf.Index, streamOf(c, &rf), nil)
		out.line("BEGIN %d", rf.Index)
		v := c.Exec(r)
		if v != nil {
			out.line("END %d violation %s", rf.Index, v.Class)
		} else {
			out.line("END %d ok", rf.Index)
		}
	case "shrinkcrash":
		shrinkCrash(c, w, out)
	case "shrinkproc":
		shrinkProc(c, w, out)
	case "show":
		// Print the materialised artefact and event log of a replay file
		// (debugging aid; for crashing runs the artefact is printed before
		// the run is executed when VERIF_SHOW_ONLY is set by the check).
		var rf ReplayFile
		readJSON(os.Getenv("VERIF_REPLAY"), &rf)
		r := newRun(c, w, rf.Seed, rf.Index, streamOf(c, &rf), nil)
		r.showOnly = true
		v := c.Exec(r)
		b, _ := json.MarshalIndent(map[string]any{"artefact": r.Artefact, "log": r.log, "violation": v}, "", " ")
		fmt.Println(string(b))
	default:
		Fail("unknown VERIF_MODE %q", mode)
	}
}

func newRun(c Check, w *worker, seed uint64, index int, s *choice.Stream, mask map[string]bool) *Run {
	tier := os.Getenv("VERIF_TIER")
	if tier == "" {
		tier = "quick"
	}
	if dm := os.Getenv("VERIF_DEBUG_MASK"); dm != "" && mask == nil {
		// Development aid only: mask generator features for every run.
		mask = map[string]bool{}
		for _, f := range strings.Split(dm, ",") {
			mask[f] = true
		}
	}
	return &Run{Prop: c.Prop, Seed: seed, Index: index, Tier: tier, S: s, w: w, mask: mask}
}

func smoke(t *testing.T, c Check) {
	w := &worker{counters: map[string]int64{}, distinct: map[uint64]struct{}{}}
	n := envInt("VERIF_SMOKE", 20)
	base := envU64("VERIF_SEED", 1)
	nfail := 0
	if c.Prepare != nil {
		c.Prepare(func(i int, mask map[string]bool) *Run {
			seed := choice.Mix(base, c.Prop, uint64(i))
			r := newRun(c, w, seed, i, choice.New(seed), mask)
			r.quiet = true
			return r
		}, 0, n, []map[string]bool{nil})
	}
	trace := os.Getenv("VERIF_SMOKE_TRACE") != ""
	for i := envInt("VERIF_SMOKE_FROM", 0); i < n; i++ {
		seed := choice.Mix(base, c.Prop, uint64(i))
		r := newRun(c, w, seed, i, choice.New(seed), nil)
		if trace {
			fmt.Fprintf(os.Stderr, "SMOKE run %d\n", i)
		}
		if v := c.Exec(r); v != nil {
			nfail++
			if nfail <= envInt("VERIF_SMOKE_SHOW", 1) {
				b, _ := json.MarshalIndent(v, "", " ")
				t.Errorf("run %d seed %d: %s\n%s", i, seed, v, b)
				for _, l := range r.log {
					t.Log(l)
				}
			} else {
				d := v.Detail
				if n := envInt("VERIF_SMOKE_DETAIL", 300); len(d) > n {
					d = d[:n]
				}
				t.Errorf("run %d: %s: %s", i, v.Class, d)
			}
			if os.Getenv("VERIF_SMOKE_ALL") == "" {
				return
			}
		}
	}
	keys := make([]string, 0, len(w.counters))
	for k := range w.counters {
		keys = append(keys, k)
	}
	sort.Strings(keys)
	for _, k := range keys {
		t.Logf("%s = %d", k, w.counters[k])
	}
	t.Logf("distinct = %d", len(w.distinct))
}

func runRange(c Check, w *worker, out *outFile) {
	base := envU64("VERIF_SEED", 1)
	from := envInt("VERIF_FROM", 0)
	to := envInt("VERIF_TO", 1)
	maxViol := envInt("VERIF_MAX_VIOLATIONS", 3)
	replayDir := os.Getenv("VERIF_REPLAY_DIR")
	known := loadKnown(c.Prop)
	nviol := 0
	if c.Prepare != nil {
		c.Prepare(func(i int, mask map[string]bool) *Run {
			seed := choice.Mix(base, c.Prop, uint64(i))
			r := newRun(c, w, seed, i, choice.New(seed), mask)
			r.quiet = true
			return r
		}, from, to, knownMasks(known))
	}
	for i := from; i < to; i++ {
		seed := choice.Mix(base, c.Prop, uint64(i))
		out.line("BEGIN %d", i)
		r := newRun(c, w, seed, i, choice.New(seed), nil)
		v := c.Exec(r)
		if v == nil {
			out.line("END %d ok %s", i, r.LogHash())
			continue
		}
		if os.Getenv("VERIF_NO_SHRINK") != "" {
			out.line("END %d violation %s", i, r.LogHash())
			continue
		}
		draws := r.S.Draws()
		orig := len(draws)
		if c.FreshProcess {
			file := ReplayFile{
				Property: c.Prop, Tier: r.Tier, Seed: seed, BaseSeed: base, Index: i, Race: raceEnabled,
				Draws: draws, Class: v.Class, Detail: v.Detail, LogHash: "",
				Log: tail(r.log, 400), Artefact: firstNonNil(v.Artefact, r.Artefact), Shrunk: true, OrigLen: orig,
			}
			path := filepath.Join(replayDir, fmt.Sprintf("%s-%d.json", c.Prop, seed))
			writeJSON(path, file)
			out.json("VIOLATION", map[string]any{"index": i, "class": v.Class, "detail": v.Detail, "replay": path, "fresh_process": true})
			out.line("END %d violation %s", i, r.LogHash())
			nviol++
			if nviol >= maxViol {
				break
			}
			continue
		}
		// Known findings are matched on the original run first (no
		// minimisation is spent on what is already listed).
		matched := matchKnown(c, w, known, seed, i, draws, v)
		vf := v
		rf := r
		min := draws
		if matched == "" {
			min = choice.Shrink(draws, c.ShrinkBudget, func(d []uint64) bool {
				r2 := newRun(c, w, seed, i, choice.Replay(d), nil)
				r2.quiet = true
				v2 := c.Exec(r2)
				return v2 != nil && v2.Class == v.Class
			})
			reproduce := func(d []uint64) (*Run, *Violation) {
				// A check may declare a residual, documented source of
				// nondeterminism in the code under test (C22: Go's map
				// order inside native.Package): then a few attempts are made.
				for attempt := 0; attempt < 1+c.Retries; attempt++ {
					rr := newRun(c, w, seed, i, choice.Replay(d), nil)
					rr.quiet = true
					if vv := c.Exec(rr); vv != nil && vv.Class == v.Class {
						return rr, vv
					}
				}
				return nil, nil
			}
			rf, vf = reproduce(min)
			if vf == nil && c.Retries > 0 {
				// Fall back to the unminimised run.
				min = draws
				rf, vf = reproduce(min)
			}
			if vf == nil {
				// The violation was observed once and cannot be reproduced
				// from its draws in this process: it is not reported as a
				// violation (no replay file can be honoured); the driver
				// turns it into exit 2 unless confirmed violations exist.
				out.json("UNREPRODUCED", map[string]any{"index": i, "class": v.Class, "detail": firstLines(v.Detail, 6)})
				out.line("END %d violation %s", i, r.LogHash())
				continue
			}
			matched = matchKnown(c, w, known, seed, i, min, vf)
		}
		if matched != "" {
			out.json("KNOWN", map[string]any{"index": i, "name": matched, "class": vf.Class, "detail": firstLines(vf.Detail, 3)})
			out.line("END %d known %s", i, r.LogHash())
			w.counters["known."+matched]++
			continue
		}
		file := ReplayFile{
			Property: c.Prop, Tier: r.Tier, Seed: seed, BaseSeed: base, Index: i,
			Race:  raceEnabled,
			Draws: min, Class: vf.Class, Detail: vf.Detail, LogHash: rf.LogHash(),
			Log: tail(rf.log, 400), Artefact: firstNonNil(vf.Artefact, rf.Artefact), Shrunk: true, OrigLen: orig,
		}
		path := filepath.Join(replayDir, fmt.Sprintf("%s-%d.json", c.Prop, seed))
		writeJSON(path, file)
		out.json("VIOLATION", map[string]any{"index": i, "class": vf.Class, "detail": vf.Detail, "replay": path})
		out.line("END %d violation %s", i, r.LogHash())
		nviol++
		if nviol >= maxViol {
			break
		}
	}
	writeStats(w, out)
}

// knownMasks returns the feature masks matchKnown may apply: none, each
// finding's feature, and their union.
func knownMasks(known []KnownFinding) []map[string]bool {
	masks := []map[string]bool{nil}
	union := map[string]bool{}
	for _, k := range known {
		if k.Feature != "" && !union[k.Feature] {
			union[k.Feature] = true
			masks = append(masks, map[string]bool{k.Feature: true})
		}
	}
	if len(union) > 1 {
		masks = append(masks, union)
	}
	return masks
}

// matchKnown attributes a violation to a listed finding (counterfactually):
// class and pattern must match and the violation must disappear when the same
// recorded run is re-executed with the finding's generator feature masked. If
// no single finding explains it, the union of all listed features is tried (a
// run that trips over two known defects at once). It returns the finding
// name(s) joined by "+", or "".
func matchKnown(c Check, w *worker, known []KnownFinding, seed uint64, i int, draws []uint64, v *Violation) string {
	candidates := func(v *Violation) []KnownFinding {
		var cands []KnownFinding
		for _, k := range known {
			if k.Class != "" {
				re, err := regexp.Compile("^(?:" + k.Class + ")$")
				if err != nil {
					Fail("known finding %s: %v", k.Name, err)
				}
				if !re.MatchString(v.Class) {
					continue
				}
			}
			if k.Pattern != "" {
				re, err := regexp.Compile(k.Pattern)
				if err != nil {
					Fail("known finding %s: %v", k.Name, err)
				}
				if !re.MatchString(v.Detail) && !re.MatchString(v.Class) {
					continue
				}
			}
			cands = append(cands, k)
		}
		return cands
	}
	// explained reports whether violation v, observed with the features in
	// mask masked, is accounted for by listed findings: some candidate
	// finding has no feature (class/pattern identify it), or masking its
	// feature as well yields a run that is clean or whose violation is
	// explained in turn. names collects the findings used.
	var explained func(v *Violation, mask map[string]bool, names *[]string, depth int) bool
	explained = func(v *Violation, mask map[string]bool, names *[]string, depth int) bool {
		if depth > 4 {
			return false
		}
		for _, k := range candidates(v) {
			if k.Feature == "" {
				*names = append(*names, k.Name)
				return true
			}
			if mask[k.Feature] {
				continue
			}
			m2 := map[string]bool{k.Feature: true}
			for f := range mask {
				m2[f] = true
			}
			rm := newRun(c, w, seed, i, choice.Replay(draws), m2)
			rm.quiet = true
			v2 := c.Exec(rm)
			saved := len(*names)
			*names = append(*names, k.Name)
			if v2 == nil || explained(v2, m2, names, depth+1) {
				return true
			}
			*names = (*names)[:saved]
		}
		return false
	}
	var names []string
	if explained(v, map[string]bool{}, &names, 0) {
		seen := map[string]bool{}
		var uniq []string
		for _, n := range names {
			if !seen[n] {
				seen[n] = true
				uniq = append(uniq, n)
			}
		}
		return strings.Join(uniq, "+")
	}
	return ""
}

// streamOf returns the stream a replay file denotes: its recorded draws, or,
// for an index-only file (no minimisation was possible), the generating
// stream of that run index.
func streamOf(c Check, rf *ReplayFile) *choice.Stream {
	if rf.Draws == nil && !rf.Shrunk {
		rf.Seed = choice.Mix(rf.BaseSeed, c.Prop, uint64(rf.Index))
		return choice.New(rf.Seed)
	}
	return choice.Replay(rf.Draws)
}

func firstNonNil(a, b any) any {
	if a != nil {
		return a
	}
	return b
}

func tail(l []string, n int) []string {
	if len(l) > n {
		return l[len(l)-n:]
	}
	return l
}

func writeStats(w *worker, out *outFile) {
	d := make([]string, 0, len(w.distinct))
	for k := range w.distinct {
		d = append(d, strconv.FormatUint(k, 16))
	}
	sort.Strings(d)
	out.json("STATS", map[string]any{"counters": w.counters, "distinct": d, "samples": w.samples})
}

func runReplay(c Check, w *worker, out *outFile) {
	var rf ReplayFile
	readJSON(os.Getenv("VERIF_REPLAY"), &rf)
	out.line("BEGIN %d", rf.Index)
	s := streamOf(c, &rf)
	r := newRun(c, w, rf.Seed, rf.Index, s, nil)
	v := c.Exec(r)
	for attempt := 0; attempt < c.Retries && (v == nil || v.Class != rf.Class); attempt++ {
		r = newRun(c, w, rf.Seed, rf.Index, streamOf(c, &rf), nil)
		v = c.Exec(r)
	}
	res := map[string]any{"log_hash": r.LogHash()}
	if v != nil {
		res["class"] = v.Class
		res["detail"] = v.Detail
	} else {
		res["class"] = ""
	}
	res["match"] = v != nil && v.Class == rf.Class && (rf.LogHash == "" || rf.LogHash == r.LogHash())
	out.json("REPLAY", res)
	out.line("END %d done", rf.Index)
}

// shrinkCrash minimises a run that kills the worker process (a panic on a
// goroutine other than the caller's, a fatal error, or a race-detector exit):
// every candidate is executed in a child process.
func shrinkCrash(c Check, w *worker, out *outFile) {
	base := envU64("VERIF_SEED", 1)
	i := envInt("VERIF_FROM", 0)
	seed := choice.Mix(base, c.Prop, uint64(i))
	// The original draws are unknown (the process died): replaying the raw
	// generator prefix is the same run as long as it makes at most n draws.
	n := envInt("VERIF_CRASH_DRAWS", 8192)
	draws := choice.RawPrefix(seed, n)
	exe, err := os.Executable()
	if err != nil {
		Fail("executable: %v", err)
	}
	tmp, err := os.MkdirTemp(os.Getenv("VERIF_SCRATCH"), "shrinkcrash")
	if err != nil {
		Fail("mkdtemp: %v", err)
	}
	defer os.RemoveAll(tmp)
	wantCode := envInt("VERIF_CRASH_CODE", -1)
	lastOut := ""
	crashes := func(d []uint64) bool {
		rf := ReplayFile{Property: c.Prop, Seed: seed, Index: i, Draws: d, Shrunk: true}
		p := filepath.Join(tmp, "cand.json")
		writeJSON(p, rf)
		o := filepath.Join(tmp, "cand.out")
		os.Remove(o)
		cmd := exec.Command(exe, os.Args[1:]...)
		cmd.Env = append(os.Environ(), "VERIF_MODE=exec1", "VERIF_REPLAY="+p, "VERIF_OUT="+o)
		b, err := cmd.CombinedOutput()
		if err == nil {
			return false
		}
		ob, _ := os.ReadFile(o)
		if strings.Contains(string(ob), "\nEND ") || strings.Contains(string(ob), "HARNESS-ERROR") {
			return false
		}
		if ee, ok := err.(*exec.ExitError); ok && wantCode >= 0 && ee.ExitCode() != wantCode {
			return false
		}
		lastOut = string(b)
		return true
	}
	if !crashes(draws) {
		out.json("SHRINKCRASH", map[string]any{"reproduced": false})
		return
	}
	budget := c.ShrinkBudget
	if budget > 150 {
		budget = 150
	}
	min := choice.Shrink(draws, budget, crashes)
	crashes(min)
	file := ReplayFile{
		Property: c.Prop, Tier: os.Getenv("VERIF_TIER"), Seed: seed, BaseSeed: base, Index: i, Race: raceEnabled,
		Draws: min, Class: os.Getenv("VERIF_CRASH_CLASS"), Detail: firstLines(lastOut, 12),
		Crash: tailString(lastOut, 6000), Shrunk: true, OrigLen: n,
	}
	path := filepath.Join(os.Getenv("VERIF_REPLAY_DIR"), fmt.Sprintf("%s-%d.json", c.Prop, seed))
	writeJSON(path, file)
	out.json("SHRINKCRASH", map[string]any{"reproduced": true, "replay": path, "detail": file.Detail})
}

// shrinkProc minimises the draws of a replay file by executing every
// candidate in a child process (for violations that depend on process state).
func shrinkProc(c Check, w *worker, out *outFile) {
	path := os.Getenv("VERIF_REPLAY")
	var rf ReplayFile
	readJSON(path, &rf)
	exe, err := os.Executable()
	if err != nil {
		Fail("executable: %v", err)
	}
	tmp, err := os.MkdirTemp(os.Getenv("VERIF_SCRATCH"), "shrinkproc")
	if err != nil {
		Fail("mkdtemp: %v", err)
	}
	defer os.RemoveAll(tmp)
	violates := func(d []uint64) bool {
		cand := rf
		cand.Draws = d
		cand.Shrunk = true
		p := filepath.Join(tmp, "cand.json")
		writeJSON(p, cand)
		o := filepath.Join(tmp, "cand.out")
		os.Remove(o)
		cmd := exec.Command(exe, os.Args[1:]...)
		cmd.Env = append(os.Environ(), "VERIF_MODE=exec1", "VERIF_REPLAY="+p, "VERIF_OUT="+o)
		if err := cmd.Run(); err != nil {
			return false
		}
		ob, _ := os.ReadFile(o)
		return strings.Contains(string(ob), fmt.Sprintf("END %d violation %s", rf.Index, rf.Class))
	}
	if !violates(rf.Draws) {
		out.json("SHRINKPROC", map[string]any{"reproduced": false})
		return
	}
	budget := c.ShrinkBudget
	if budget > 120 {
		budget = 120
	}
	min := choice.Shrink(rf.Draws, budget, violates)
	// Re-materialise the artefact and detail of the minimised run.
	rf.Draws = min
	writeJSON(path, rf)
	out.json("SHRINKPROC", map[string]any{"reproduced": true, "draws": len(min)})
}

func firstLines(s string, n int) string {
	l := strings.Split(s, "\n")
	if len(l) > n {
		l = l[:n]
	}
	return strings.Join(l, "\n")
}

func tailString(s string, n int) string {
	if len(s) > n {
		return s[len(s)-n:]
	}
	return s
}

func readJSON(path string, v any) {
	b, err := os.ReadFile(path)
	if err != nil {
		Fail("read %s: %v", path, err)
	}
	if err := json.Unmarshal(b, v); err != nil {
		Fail("parse %s: %v", path, err)
	}
}

func writeJSON(path string, v any) {
	b, err := json.MarshalIndent(v, "", " ")
	if err != nil {
		Fail("marshal: %v", err)
	}
	os.MkdirAll(filepath.Dir(path), 0o755)
	if err := os.WriteFile(path, b, 0o644); err != nil {
		Fail("write %s: %v", path, err)
	}
}

// Guard calls f and returns the recovered panic value (nil if none) and the
// stack at the point of recovery.
func Guard(f func()) (panicked bool, val any, stack string) {
	defer func() {
		if e := recover(); e != nil {
			if he, ok := e.(HarnessError); ok {
				panic(he)
			}
			panicked, val, stack = true, e, shortStack(string(debug.Stack()))
		}
	}()
	f()
	return
}

// shortStack keeps the frames between the panic and the harness.
// FuncsOnly reduces a stack returned by Guard to its function names: no
// argument values, offsets or file paths, which differ from process to
// process (and must not reach an event log that is compared across
// processes).
func FuncsOnly(stack string) string {
	var out []string
	for _, l := range strings.Split(stack, "\n") {
		if l == "" || strings.HasPrefix(l, "\t") {
			continue
		}
		if i := strings.LastIndex(l, "("); i > 0 {
			l = l[:i]
		}
		out = append(out, l)
	}
	return strings.Join(out, " < ")
}

func shortStack(s string) string {
	lines := strings.Split(s, "\n")
	var out []string
	seenPanic := false
	for i := 0; i+1 < len(lines); i++ {
		if strings.HasPrefix(lines[i], "panic(") {
			seenPanic = true
			out = out[:0]
			i++
			continue
		}
		if seenPanic {
			if strings.HasPrefix(lines[i], "verifsim/") {
				break
			}
			out = append(out, lines[i])
		}
	}
	if len(out) > 24 {
		out = out[:24]
	}
	return strings.Join(out, "\n")
}
