#!/usr/bin/env python3
"""Regenerates /verif/MANIFEST.json from bin/vconfig.py (checks) and the fixed
not-applicable table below."""
import json, os, sys
VERIF = os.path.dirname(os.path.dirname(os.path.abspath(__file__)))
sys.path.insert(0, os.path.join(VERIF, "bin"))
from vconfig import CHECKS, ENGINES, HOOK_COMMITS

NA = {
"C01":"sequential interpreter-vs-gc equivalence is a pure function of the program text; no schedule, clock, fault or shared state in the statement (its concurrent sibling C14 is claimed)",
"C02":"constant folding is a pure function of the expression; nothing to schedule or fail",
"C03":"type-checker acceptance vs go/types is a pure function of the source",
"C05":"quantified over programs/values only; the fault-driven slice (writer failure, cancellation, Stop/Fatal/panic natives, goroutines) is asserted as a side condition inside C11-C14 and reported under those ids",
"C06":"autoescaping structure is a pure function of (template, value)",
"C07":"escape/decode round trip is a pure function of (context, value)",
"C08":"JS/JSON literal validity is a pure function of the value",
"C09":"static/dynamic show agreement is a pure function of type and value",
"C15":"template text verbatim: pure function of template bytes",
"C16":"render/import/extends composition: pure function of the template set",
"C17":"template variable binding: pure function of template and inputs (cross-run sharing is observed by C10's oracle)",
"C19":"confinement is a reachability property over programs and configurations; no schedule or fault in it",
"C20":"implementation limits: pure function of program size parameters",
"C21":"error positions: pure function of source bytes",
"C23":"Files as io/fs: single-threaded value semantics; no fault or schedule in the statement",
"C24":"HTMLEscape: pure string function",
"C25":"builtins: pure functions of their arguments",
"C26":"Markdown escaping: pure string function",
"C27":"AST print/parse round trip: pure tree function",
"C28":"clone/walk: pure tree functions",
"C29":"Markdown link rewriting: pure function of the document",
}
PLANNED = ["C04","C10","C11","C12","C13","C14","C18","C22","C30"]

checks = []
for pid in sorted(CHECKS):
    c = CHECKS[pid]
    if not c.get("registered", True):
        continue
    checks.append({
        "property_id": pid,
        "quick_cmd": "bin/vcheck %s quick" % pid,
        "thorough_cmd": "bin/vcheck %s thorough" % pid,
        "evidence_file": "/verif/evidence/%s.json" % pid,
        "replay_cmd_template": "bin/vcheck replay {path}",
        "engine": c["engine"],
        "level_claimed": {"category": c["level"], "text": c["level_text"], "design_ref": c["design_ref"]},
        "level_note": c["level_note"],
        "technique": c["technique"],
    })
claimed = {c["property_id"] for c in checks}
na = [{"property_id": k, "reason": v} for k, v in NA.items()]
for k in PLANNED:
    if k not in claimed:
        na.append({"property_id": k, "reason": "designed as a simulation target (DESIGN.md section 5) but its check is not yet registered as sound on the unchanged tree"})
na.sort(key=lambda e: e["property_id"])
m = {
 "version": 1,
 "setup_cmd": "bin/vsetup",
 "hooks": {
  "guard": "verif",
  "enable": "go test -c -tags verif, module /verif/sim with `replace github.com/open2b/scriggo => /repo` (bin/vcheck does this on every run)",
  "baseline_off_cmd": "cd /repo && GOFLAGS=-mod=mod GOPROXY=off go test -vet=off -count=1 -timeout 25m ./... && cd /repo/test && GOFLAGS=-mod=mod GOPROXY=off go test -vet=off -count=1 -timeout 25m ./...",
  "source_commits": HOOK_COMMITS,
  "add_only": True,
 },
 "engines": ENGINES,
 "checks": checks,
 "notes": "Technique: deterministic simulation with fault injection. One integer (VERIF_SEED) decides every generated artefact, schedule and fault; violations are minimised and written to /verif/replays/, `bin/vcheck replay <file>` reproduces them in a fresh process. Known findings: /verif/known_findings.txt. See DESIGN.md.",
 "not_applicable": na,
}
json.dump(m, open(os.path.join(VERIF, "MANIFEST.json"), "w"), indent=1)
print("MANIFEST.json: %d checks, %d not applicable" % (len(checks), len(na)))
