//go:build verif

// C11 — cancelling the run context stops any execution promptly.
//
// Generated non-terminating and blocking programs (and terminating ones, for
// the "finishes first" half) run on Scriggo's VM under the seeded scheduler;
// the simulator decides at which scheduler step the cancellation event fires
// (a CancelFunc call, a parent context's cancel, or a deadline reached by
// jumping the bubble's fake clock) and where the main goroutine is at that
// moment (blocked inside an operation, parked before it, at an instruction
// boundary, already returned). Latency is measured in interpreted
// instructions, never in wall time.
package c11

import (
	"context"
	"fmt"
	"strings"
	"testing"
	"time"

	"verifsim/gen/conc"
	"verifsim/harness"
	"verifsim/sched"

	"github.com/open2b/scriggo"
)

var theT *testing.T

func TestC11(t *testing.T) {
	theT = t
	sched.Install()
	harness.Main(t, harness.Check{Prop: "C11", Exec: exec, ShrinkBudget: 200})
}

// runner runs the artefact under test (Program.Run or Template.Run).
type runner func(opts *scriggo.RunOptions) error

// Non-terminating and terminating template bodies (the statement covers
// programs and templates): loops and blocking operations in the main body,
// inside macros, and in goroutines started by the template.
var ntTemplates = []string{
	`{% for %}{% end %}`,
	`a{% for i := 0; ; i++ %}{{ i }}{% end %}`,
	`{% macro M %}{% for %}x{% end %}{% end %}{{ M() }}`,
	`{% macro R(n int) %}{{ R(n+1) }}{% end %}{{ R(0) }}`,
	`{% var c = make(chan int) %}{% c <- 1 %}`,
	`{% var c = make(chan int) %}{{ <-c }}`,
	`{% var c = make(chan int) %}{% var d = make(chan string) %}{% select %}{% case <-c %}x{% case d <- "s" %}y{% end %}`,
	`{% var c = make(chan int) %}{% for v := range c %}{{ v }}{% end %}`,
	`{% select %}{% end %}`,
	`{% var c = make(chan int) %}{% go func() { c <- 1 }() %}{{ <-c }}{% for %}{% end %}`,
	`{% var c = make(chan int) %}{% go func() { for { } }() %}{{ <-c }}`,
	`{% macro M(c chan int) %}{{ <-c }}{% end %}{% var c = make(chan int) %}<p>{{ M(c) }}</p>`,
	`{% var c = make(chan int) %}{% for %}{% select %}{% case <-c %}{% default %}{% end %}{% end %}`,
}

var termTemplates = []string{
	`hello {{ 1 + 2 }}`,
	`{% for i := 0; i < 20; i++ %}{{ i }},{% end %}`,
	`{% var c = make(chan int, 1) %}{% c <- 5 %}{{ <-c }}`,
	`{% var c = make(chan int) %}{% go func() { for i := 0; i < 3; i++ { c <- i }; close(c) }() %}{% for v := range c %}{{ v }}{% end %}`,
	`{% macro M(n int) %}{% if n > 0 %}{{ M(n-1) }}{% end %}{{ n }}{% end %}{{ M(5) }}`,
}

type printer struct{ b strings.Builder }

func (p *printer) print(v any) {
	s, ok := v.(string)
	if !ok {
		s = fmt.Sprint(v)
	}
	p.b.WriteString(s)
}

// plan is the drawn fault plan of one simulated execution.
type plan struct {
	ctxKind  int // 0 WithCancel, 1 parent cancel, 2 deadline, 3 already cancelled, 4 background (never), 5 deadline never reached
	rule     int // 0 at step, 1 when main is blocked in an operation, 2 when idle
	fireStep int
	policy   int
	ticks    int // small clock advances before the event
	maxSteps int // step cap: generous for terminating programs (alternate policy: one step per instruction)
}

var ctxNames = []string{"WithCancel", "parent-cancel", "deadline", "already-cancelled", "background", "deadline-not-reached"}
var ruleNames = []string{"at-step", "when-main-blocked", "when-idle"}

type result struct {
	returned  bool
	err       error
	panicked  bool
	pval      any
	stack     string
	out       string
	oc        sched.Outcome
	fired     bool
	firedStep int
	where     string // where the main goroutine was when the event fired
	mainAfter int    // instructions of the main goroutine after the event
	maxChild  int
	alive     int // children still alive at the end of the observation
	ctxErr    error
	simNs     int64
	trace     string
	steps     int
}

func simulate(r *harness.Run, prog runner, pl plan, logIt bool) result {
	var res result
	sched.Bubble(theT, func() {
		s := sched.New(r.S)
		s.Policy = pl.policy
		s.MaxSteps = pl.maxSteps
		s.MaxQuantum = 150
		if logIt {
			s.Log = r.Logf
		}
		var pr printer
		opts := &scriggo.RunOptions{Print: pr.print}
		start := time.Now()
		var ctx context.Context
		var fire func()
		switch pl.ctxKind {
		case 0:
			c, cancel := context.WithCancel(context.Background())
			ctx, fire = c, cancel
		case 1:
			parent, cancel := context.WithCancel(context.Background())
			child, cancel2 := context.WithCancel(parent)
			defer cancel2()
			ctx, fire = child, cancel
		case 2, 5:
			c, cancel := context.WithTimeout(context.Background(), time.Hour)
			defer cancel()
			ctx = c
			if pl.ctxKind == 2 {
				fire = func() { time.Sleep(time.Hour + time.Second) }
			}
		case 3:
			c, cancel := context.WithCancel(context.Background())
			cancel()
			ctx = c
		case 4:
			ctx = context.Background()
		}
		opts.Context = ctx
		s.RegisterContext(ctx)
		var mainG *sched.G
		mainG = s.Spawn("0", func() {
			res.panicked, res.pval, res.stack = harness.Guard(func() { res.err = prog(opts) })
			res.returned = true
		})
		doFire := func(s *sched.Sim) {
			res.fired = true
			res.firedStep = s.Step
			switch {
			case res.returned:
				res.where = "main-returned"
			case mainG.InOp():
				res.where = "main-blocked-in-" + mainG.OpKind()
			case mainG.ParkedAt() == sched.YBeforeOp:
				res.where = "main-parked-before-" + mainG.OpKind()
			case mainG.ParkedAt() == sched.YAfterOp:
				res.where = "main-parked-after-op"
			case mainG.ParkedAt() == sched.YStart:
				res.where = "main-not-started"
			default:
				res.where = "main-at-instruction"
			}
			s.Cancelled = true
			fire()
			if logIt {
				r.Logf("step %d: cancellation event fired (%s), %s", s.Step, ctxNames[pl.ctxKind], res.where)
			}
		}
		ticks := pl.ticks
		s.BeforeStep = func(s *sched.Sim) bool {
			if fire == nil || res.fired {
				return false
			}
			if ticks > 0 && s.Step%7 == 3 {
				ticks--
				time.Sleep(time.Millisecond) // clock skew well before any deadline
				return true
			}
			if s.Step < pl.fireStep {
				return false
			}
			switch pl.rule {
			case 0:
				doFire(s)
				return true
			case 1:
				if mainG.InOp() || s.Step >= pl.fireStep+300 {
					doFire(s)
					return true
				}
			case 2:
				if s.Step >= pl.fireStep+300 {
					doFire(s)
					return true
				}
			}
			return false
		}
		s.Idle = func(s *sched.Sim) bool {
			if fire == nil || res.fired {
				return false
			}
			doFire(s)
			return true
		}
		extra := -1
		res.oc = s.Run(func() bool {
			// Once Run has returned keep scheduling for a bounded number of
			// steps to observe (not judge) whether the children stop too.
			if res.returned {
				if extra < 0 {
					extra = s.Step + 300
				}
				if s.Step >= extra {
					return true
				}
			}
			return false
		})
		res.out = pr.b.String()
		res.mainAfter = mainG.AfterCancelInstrs
		for _, g := range s.Gs() {
			if g == mainG {
				continue
			}
			if g.AfterCancelInstrs > res.maxChild {
				res.maxChild = g.AfterCancelInstrs
			}
			if !g.Done() {
				res.alive++
			}
		}
		res.ctxErr = ctx.Err()
		res.simNs = int64(time.Since(start))
		res.trace = s.TraceHash()
		res.steps = s.Step
	})
	return res
}

func exec(r *harness.Run) *harness.Violation {
	s := r.S
	nonTerm := s.Chance(7, 10)
	var prog runner
	var p *conc.Prog
	var tmplOut *strings.Builder
	if r.Feature("template", 1, 4) {
		// A template: output goes to a writer, so the reference output of a
		// terminating template is what it wrote.
		var src string
		if nonTerm {
			src = ntTemplates[s.N(len(ntTemplates))]
		} else {
			src = termTemplates[s.N(len(termTemplates))]
		}
		p = &conc.Prog{Blocks: []string{"template"}}
		r.Artefact = map[string]any{"index.html": src, "non_terminating": nonTerm}
		if r.ShowOnly() {
			return nil
		}
		t, err := scriggo.BuildTemplate(scriggo.Files{"index.html": []byte(src)}, "index.html", &scriggo.BuildOptions{AllowGoStmt: true})
		if err != nil {
			harness.Fail("catalogue template does not build: %v\n%s", err, src)
		}
		tmplOut = &strings.Builder{}
		prog = func(opts *scriggo.RunOptions) error {
			tmplOut.Reset()
			err := t.Run(tmplOut, nil, opts)
			if opts.Print != nil {
				opts.Print(tmplOut.String())
			}
			return err
		}
		r.Count("artefact.template", 1)
	} else {
		p = conc.Gen(s, conc.Options{Feature: r.Feature, NonTerminating: nonTerm, MaxBlocks: 2})
		r.Artefact = map[string]any{"main.go": p.Files["main.go"], "blocks": p.Blocks, "non_terminating": nonTerm}
		if r.ShowOnly() {
			return nil
		}
		pr, err := scriggo.Build(scriggo.Files{"main.go": []byte(p.Files["main.go"])}, &scriggo.BuildOptions{AllowGoStmt: true})
		if err != nil {
			r.Count("skipped.build_error", 1)
			r.Logf("scriggo build error: %v", err)
			return nil
		}
		prog = pr.Run
		r.Count("artefact.program", 1)
	}
	var ref string
	if !nonTerm {
		// Reference outcome: the same program without any context, run to
		// block (output is schedule-independent by construction; C14 checks
		// that against gc).
		rr := simulate(r, prog, plan{ctxKind: 4, policy: 1, maxSteps: 200000}, false)
		r.Evals(1)
		if rr.oc.Kind != "done" && rr.oc.Kind != "until" || rr.err != nil || rr.panicked {
			r.Count("skipped.reference_failed", 1)
			r.Logf("reference run failed: %+v err=%v", rr.oc, rr.err)
			return nil
		}
		ref = rr.out
	}
	nsched := 6
	for j := 0; j < nsched; j++ {
		var pl plan
		if nonTerm {
			pl.ctxKind = s.Pick(4, 2, 3)
		} else {
			pl.ctxKind = s.Pick(3, 1, 2, 2, 2, 2)
		}
		pl.rule = s.Pick(3, 3, 2)
		pl.fireStep = s.Pick(2, 3, 3, 2)
		switch pl.fireStep {
		case 0:
			pl.fireStep = 0
		case 1:
			pl.fireStep = s.N(20)
		case 2:
			pl.fireStep = s.N(200)
		case 3:
			pl.fireStep = s.N(1500)
		}
		pl.policy = s.Pick(4, 2, 1, 2)
		pl.ticks = s.N(3)
		pl.maxSteps = 4000
		if !nonTerm {
			pl.maxSteps = 200000
		}
		res := simulate(r, prog, pl, j < 2)
		r.Evals(1)
		r.Count("sched_steps", res.steps)
		r.Count("simulated_ns", int(res.simNs))
		r.Count("ctx."+ctxNames[pl.ctxKind], 1)
		ctx := fmt.Sprintf("schedule %d (%s, event %s at step>=%d, fired=%v at step %d: %s)", j, ctxNames[pl.ctxKind], ruleNames[pl.rule], pl.fireStep, res.fired, res.firedStep, res.where)
		if j < 2 {
			r.Logf("%s: outcome %s returned=%v err=%v trace %s", ctx, res.oc.Kind, res.returned, res.err, res.trace)
		}
		if res.oc.Kind == "mismatch" {
			harness.Fail("channel model mismatch: %s", res.oc.Detail)
		}
		if res.panicked {
			return harness.Violf("host-panic", "%s: Run panicked into the host with %T %v\n%s", ctx, res.pval, res.pval, res.stack)
		}
		if res.fired {
			r.Count("fault.cancel-"+ctxNames[pl.ctxKind], 1)
			r.Count("probe.cancel_landed_"+res.where, 1)
			r.Distinct(fmt.Sprintf("%v|%s|%s", r.Artefact, res.trace, res.where))
		}
		cancelledBeforeReturn := res.fired && res.where != "main-returned"
		switch {
		case pl.ctxKind == 3:
			// Already cancelled before Run: only "returns, no panic, result is
			// ctx.Err() or the program's own outcome".
			if !res.returned {
				return harness.Violf("cancel-ignored", "%s: context was cancelled before Run, Run never returned: %s; %s", ctx, res.oc.Kind, strings.Join(res.oc.Blocked, "; "))
			}
			if res.err != nil && res.err != context.Canceled {
				return harness.Violf("wrong-error", "%s: Run returned %T %v", ctx, res.err, res.err)
			}
		case cancelledBeforeReturn:
			if !res.returned {
				return harness.Violf("cancel-ignored", "%s: Run did not return after the context was done (%v): %s; %s", ctx, res.ctxErr, res.oc.Kind, strings.Join(res.oc.Blocked, "; "))
			}
			if res.mainAfter > 4 {
				return harness.Violf("cancel-late", "%s: the main goroutine executed %d instructions after the context was done", ctx, res.mainAfter)
			}
			// A program that completes in the few instructions left may
			// return its own outcome; otherwise the context's error itself.
			if res.err != res.ctxErr && !(res.err == nil && !nonTerm) {
				return harness.Violf("wrong-error", "%s: Run returned %T %v, want the context's error %v", ctx, res.err, res.err, res.ctxErr)
			}
			if res.err == res.ctxErr {
				r.Count("probe.returned_ctx_err", 1)
			}
			if res.alive > 0 {
				r.Count("observation.children_alive_after_cancel", res.alive)
			}
			if res.maxChild > 4 {
				r.Count("observation.child_ran_more_than_4_instructions_after_cancel", 1)
			}
		default:
			// The code finished before any cancellation (or no cancellation
			// is possible): Run returns the code's own outcome.
			if nonTerm {
				if res.returned {
					return harness.Violf("wrong-outcome", "%s: non-terminating program returned %v without cancellation", ctx, res.err)
				}
				// deadline never reached / event never fired on a program
				// that cannot finish: nothing to judge.
				continue
			}
			if !res.returned {
				return harness.Violf("no-return", "%s: terminating program did not return: %s; %s", ctx, res.oc.Kind, strings.Join(res.oc.Blocked, "; "))
			}
			if res.err != nil {
				return harness.Violf("wrong-error", "%s: the code finished before cancellation but Run returned %T %v", ctx, res.err, res.err)
			}
			if res.out != ref {
				return harness.Violf("wrong-output", "%s: output differs from the run without context:\n--- got\n%s--- want\n%s", ctx, res.out, ref)
			}
			r.Count("probe.finished_before_cancel", 1)
		}
	}
	r.Sample(map[string]any{"blocks": p.Blocks, "non_terminating": nonTerm, "schedules": nsched})
	return nil
}
