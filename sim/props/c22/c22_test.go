// C22 — native package and importer lookups follow their documented contracts.
//
// Seam: the LookupFunc callback and Importer.Import are host callbacks that
// can fail at any call. Each run draws a tree of packages (Package,
// CombinedPackage nested, a hand-written ImportablePackage) and an importer
// chain, then enumerates EVERY fault point: the callback fails at call index
// k = 1..(distinct names)+1 with a fresh error E or with StopLookup. The
// oracle is a reference "first package that has the name wins" map model and
// is insensitive to map iteration order.
package c22

import (
	"errors"
	"fmt"
	"sort"
	"strings"
	"testing"

	"verifsim/harness"

	"github.com/open2b/scriggo/native"
)

func TestC22(t *testing.T) {
	harness.Main(t, harness.Check{Prop: "C22", Exec: exec, ShrinkBudget: 400, Retries: 6})
}

// decl is a distinguishable declaration value.
type decl struct {
	Pkg  int
	Name string
}

// handPkg is a hand-written ImportablePackage that follows the contract and
// iterates in a fixed (drawn) order.
type handPkg struct {
	name  string
	order []string
	decls map[string]native.Declaration
}

func (p *handPkg) PackageName() string { return p.name }
func (p *handPkg) Lookup(name string) native.Declaration {
	d, ok := p.decls[name]
	if !ok {
		return nil
	}
	return d
}
func (p *handPkg) LookupFunc(f native.LookupFunc) error {
	for _, n := range p.order {
		if err := f(n, p.decls[n]); err != nil {
			if err == native.StopLookup {
				return nil
			}
			return err
		}
	}
	return nil
}

type leaf struct {
	id    int
	hand  bool
	names []string
}

// node is a package tree: a leaf or a combination.
type node struct {
	leaf     *leaf
	children []*node
}

func (n *node) describe() string {
	if n.leaf != nil {
		k := "P"
		if n.leaf.hand {
			k = "H"
		}
		return fmt.Sprintf("%s%d{%s}", k, n.leaf.id, strings.Join(n.leaf.names, ","))
	}
	var parts []string
	for _, c := range n.children {
		parts = append(parts, c.describe())
	}
	return "C[" + strings.Join(parts, " ") + "]"
}

var alphabet = []string{"A", "B", "C", "D", "E", "F"}

func genNode(r *harness.Run, depth int, nextID *int) *node {
	s := r.S
	if depth < 2 && s.Chance(2, 5) {
		n := &node{}
		k := s.Range(0, 3)
		for i := 0; i < k; i++ {
			n.children = append(n.children, genNode(r, depth+1, nextID))
		}
		return n
	}
	l := &leaf{id: *nextID, hand: s.Chance(1, 4)}
	*nextID++
	alpha := 4 + s.N(3)
	cnt := s.Small(alpha)
	// choose cnt distinct names in drawn order
	avail := append([]string(nil), alphabet[:alpha]...)
	for i := 0; i < cnt && len(avail) > 0; i++ {
		j := s.N(len(avail))
		l.names = append(l.names, avail[j])
		avail = append(avail[:j], avail[j+1:]...)
	}
	return &node{leaf: l}
}

// build constructs the real native packages and, in parallel, the model.
func build(n *node, model map[string]decl, order *[]string) native.ImportablePackage {
	if n.leaf != nil {
		decls := native.Declarations{}
		for _, name := range n.leaf.names {
			d := decl{n.leaf.id, name}
			decls[name] = d
			if _, ok := model[name]; !ok {
				model[name] = d
				*order = append(*order, name)
			}
		}
		pname := fmt.Sprintf("p%d", n.leaf.id)
		if n.leaf.hand {
			return &handPkg{name: pname, order: n.leaf.names, decls: decls}
		}
		return native.Package{Name: pname, Declarations: decls}
	}
	cp := native.CombinedPackage{}
	for _, c := range n.children {
		cp = append(cp, build(c, model, order))
	}
	return cp
}

func firstName(n *node) string {
	if n.leaf != nil {
		return fmt.Sprintf("p%d", n.leaf.id)
	}
	if len(n.children) == 0 {
		return ""
	}
	return firstName(n.children[0])
}

func exec(r *harness.Run) *harness.Violation {
	id := 0
	root := genNode(r, 0, &id)
	desc := root.describe()
	r.Artefact = map[string]any{"tree": desc}
	r.Logf("tree %s", desc)
	if v := checkPackage(r, root, desc); v != nil {
		return v
	}
	return checkImporter(r)
}

func checkPackage(r *harness.Run, root *node, desc string) *harness.Violation {
	model := map[string]decl{}
	var order []string
	pkg := build(root, model, &order)

	// PackageName of a combination is the name of its first package. A
	// combination nested first inside another one contributes its own rule.
	if _, isLeaf := pkg.(native.CombinedPackage); isLeaf {
		want := ""
		if len(root.children) > 0 {
			want = firstName(root.children[0])
		}
		if got := pkg.PackageName(); got != want {
			return harness.Violf("package-name", "tree %s: PackageName() = %q, want %q", desc, got, want)
		}
	}

	// Lookup agrees with the model for every name of the alphabet and one
	// name outside it.
	for _, name := range append(append([]string(nil), alphabet...), "zz") {
		got := pkg.Lookup(name)
		r.Evals(1)
		want, ok := model[name]
		if !ok {
			if got != nil {
				return harness.Violf("lookup", "tree %s: Lookup(%q) = %v, want nil", desc, name, got)
			}
			continue
		}
		if got != native.Declaration(want) {
			return harness.Violf("lookup", "tree %s: Lookup(%q) = %v, want %v", desc, name, got, want)
		}
	}

	// LookupFunc: fault-free, then every fault point with both kinds. The
	// iteration order of a map-backed Package is Go's (the contract says
	// "lookup order is undefined") and cannot be put behind a seam without
	// rewriting the library, so every fault point is repeated: which name is
	// the k-th call varies between repetitions. The oracle does not depend on
	// the order; the repetitions only widen what a single run explores.
	distinct := len(model)
	reps := 1
	if distinct > 1 {
		reps = 10
	}
	for k := 0; k <= distinct+1; k++ {
		for kind := 0; kind < 2*reps; kind++ {
			rep := kind / 2
			kind := kind % 2
			_ = rep
			if k == 0 && kind == 1 {
				continue
			}
			var fault error
			kindName := "none"
			if k > 0 {
				if kind == 0 {
					fault = errors.New("E")
					kindName = "error"
				} else {
					fault = native.StopLookup
					kindName = "stop"
				}
			}
			calls := 0
			seen := map[string]int{}
			var bad string
			afterFault := false
			cb := func(name string, d native.Declaration) error {
				calls++
				if afterFault {
					bad = fmt.Sprintf("callback invoked (for %q) after it returned an error", name)
				}
				seen[name]++
				if seen[name] > 1 && bad == "" {
					bad = fmt.Sprintf("callback invoked twice for %q", name)
				}
				want, ok := model[name]
				if bad == "" && (!ok || d != native.Declaration(want)) {
					bad = fmt.Sprintf("callback got %q=%v, model has %v (present=%v)", name, d, want, ok)
				}
				if calls == k {
					afterFault = true
					return fault
				}
				return nil
			}
			var ret error
			p, val, stack := harness.Guard(func() { ret = pkg.LookupFunc(cb) })
			r.Evals(1)
			fired := k > 0 && calls >= k
			if fired {
				r.Count("fault."+kindName, 1)
				r.Distinct(fmt.Sprintf("%s|%d|%s", desc, k, kindName))
			} else if k == 0 {
				r.Distinct(desc + "|nofault")
			}
			ctx := fmt.Sprintf("tree %s, callback fault %s at call %d", desc, kindName, k)
			if p {
				return harness.Violf("host-panic", "%s: LookupFunc panicked: %v\n%s", ctx, val, stack)
			}
			if bad != "" {
				return harness.Violf("lookupfunc-calls", "%s: %s", ctx, bad)
			}
			if fired {
				if calls != k {
					return harness.Violf("lookupfunc-calls", "%s: callback called %d times", ctx, calls)
				}
				if kind == 0 && ret != fault {
					return harness.Violf("lookupfunc-error", "%s: LookupFunc returned %v, want the callback's error", ctx, ret)
				}
				if kind == 1 && ret != nil {
					return harness.Violf("lookupfunc-stop", "%s: LookupFunc returned %v, want nil for StopLookup", ctx, ret)
				}
			} else {
				if ret != nil {
					return harness.Violf("lookupfunc-error", "%s: LookupFunc returned %v although the callback never failed", ctx, ret)
				}
				if len(seen) != distinct {
					var names []string
					for n := range seen {
						names = append(names, n)
					}
					sort.Strings(names)
					return harness.Violf("lookupfunc-calls", "%s: callback saw names %v, model has %d names %v", ctx, names, distinct, order)
				}
			}
		}
	}
	r.Sample(map[string]any{"tree": desc, "distinct_names": distinct, "fault_points": 2*(distinct+1) + 1})
	return nil
}

// simImporter is an importer with a drawn answer.
type simImporter struct {
	id     int
	pkg    native.ImportablePackage
	err    error
	calls  *[]string
	expect string
}

func (i *simImporter) Import(path string) (native.ImportablePackage, error) {
	*i.calls = append(*i.calls, fmt.Sprintf("%d:%s", i.id, path))
	return i.pkg, i.err
}

func checkImporter(r *harness.Run) *harness.Violation {
	s := r.S
	var calls []string
	id := 0
	type answer struct {
		pkg native.ImportablePackage
		err error
	}
	var flat []answer // in consultation order
	var desc []string
	var gen func(depth int) native.Importer
	gen = func(depth int) native.Importer {
		switch {
		case depth < 2 && s.Chance(1, 4):
			ci := native.CombinedImporter{}
			k := s.Range(0, 3)
			desc = append(desc, "[")
			for j := 0; j < k; j++ {
				ci = append(ci, gen(depth+1))
			}
			desc = append(desc, "]")
			return ci
		case s.Chance(1, 5):
			// the library's own map importer
			has := s.Bool()
			pk := native.Packages{}
			if has {
				p := native.Package{Name: fmt.Sprintf("m%d", id)}
				id++
				pk["x/y"] = p
				// Package is not comparable (map field): remember by name.
				flat = append(flat, answer{p, nil})
				desc = append(desc, "M+")
			} else {
				pk["other"] = native.Package{Name: "o"}
				flat = append(flat, answer{nil, nil})
				desc = append(desc, "M-")
			}
			return pk
		default:
			a := answer{}
			switch s.Pick(3, 2, 2, 1) {
			case 0:
				desc = append(desc, "nil")
			case 1:
				a.pkg = &handPkg{name: fmt.Sprintf("i%d", id)}
				desc = append(desc, "pkg")
			case 2:
				a.err = fmt.Errorf("import error %d", id)
				desc = append(desc, "err")
			case 3:
				a.pkg = &handPkg{name: fmt.Sprintf("i%d", id)}
				a.err = fmt.Errorf("import error %d", id)
				desc = append(desc, "pkg+err")
			}
			im := &simImporter{id: id, pkg: a.pkg, err: a.err, calls: &calls}
			id++
			flat = append(flat, a)
			return im
		}
	}
	top := native.CombinedImporter{}
	n := s.Range(0, 4)
	for j := 0; j < n; j++ {
		top = append(top, gen(0))
	}
	d := strings.Join(desc, " ")
	r.Logf("importers %s", d)
	var gotP native.ImportablePackage
	var gotE error
	p, val, stack := harness.Guard(func() { gotP, gotE = top.Import("x/y") })
	r.Evals(1)
	if p {
		return harness.Violf("host-panic", "importers %s: Import panicked: %v\n%s", d, val, stack)
	}
	var want answer
	consulted := 0
	for _, a := range flat {
		consulted++
		if a.pkg != nil || a.err != nil {
			want = a
			break
		}
	}
	if want.pkg == nil && want.err == nil {
		consulted = len(flat)
	}
	samePkg := func(a, b native.ImportablePackage) bool {
		if a == nil || b == nil {
			return a == nil && b == nil
		}
		pa, oka := a.(native.Package)
		pb, okb := b.(native.Package)
		if oka || okb {
			return oka && okb && pa.Name == pb.Name
		}
		return a == b
	}
	if !samePkg(gotP, want.pkg) || gotE != want.err {
		return harness.Violf("importer-result", "importers %s: Import returned (%v, %v), want the first non-empty answer (%v, %v)", d, gotP, gotE, want.pkg, want.err)
	}
	// Count simImporter answers among the first `consulted` flat entries.
	wantCalls := 0
	idx := 0
	for i, tok := range desc {
		_ = i
		switch tok {
		case "[", "]":
			continue
		}
		if idx < consulted && tok != "M+" && tok != "M-" {
			wantCalls++
		}
		idx++
	}
	if len(calls) != wantCalls {
		return harness.Violf("importer-calls", "importers %s: %d simulated importers consulted (%v), want %d (stop at the first answer)", d, len(calls), calls, wantCalls)
	}
	r.Distinct("imp|" + d)
	if want.pkg != nil || want.err != nil {
		r.Count("importer.answered", 1)
	}
	return nil
}
