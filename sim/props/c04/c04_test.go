//go:build verif

// C04 — building never crashes, hangs or leaks, whatever the source bytes.
//
// What this family contributes: Build is a two-goroutine system (parser +
// lexer goroutine feeding a token channel) fed from a storage seam. Sources
// (the repository's comparison corpus, generated template sets, file trees and
// programs) are delivered by a simulated disk that tears, truncates,
// bit-flips, splices and duplicates stored bytes and injects I/O errors; every
// build runs inside a testing/synctest bubble, so that a parser/lexer deadlock
// and goroutines left behind are observed, with the token channel capacity as
// a per-run knob.
package c04

import (
	"fmt"
	"io"
	"io/fs"
	"os"
	"path/filepath"
	"runtime/debug"
	"sort"
	"strings"
	"testing"
	"testing/synctest"

	"verifsim/choice"
	"verifsim/gen/conc"
	"verifsim/gen/pkgs"
	"verifsim/gen/skel"
	"verifsim/gen/tmpl"
	"verifsim/gen/tree"
	"verifsim/harness"
	"verifsim/sched"
	"verifsim/simio"
	"verifsim/stdpkgs"

	"github.com/open2b/scriggo"
	"github.com/open2b/scriggo/native"
)

var theT *testing.T

func TestC04(t *testing.T) {
	theT = t
	// An unbounded recursion of the compiler ends in "fatal error: stack
	// overflow" either way; a 256 MB limit (instead of 1 GB) makes it, and
	// its minimisation through child processes, cheaper. Sources are at most
	// 64 KiB, so a legitimate recursion (one level per byte of a maximally
	// nested source) stays far below it.
	debug.SetMaxStack(256 << 20)
	loadCorpus()
	harness.Main(t, harness.Check{Prop: "C04", Exec: exec, ShrinkBudget: 300})
}

// ---- corpus -----------------------------------------------------------------

type source struct {
	name    string // origin
	program bool
	files   map[string][]byte
	root    string // template root
}

var corpus []source

func loadCorpus() {
	if corpus != nil {
		return
	}
	repo := os.Getenv("VERIF_REPO")
	if repo == "" {
		repo = "/repo"
	}
	base := filepath.Join(repo, "test", "compare", "testdata")
	var paths []string
	filepath.WalkDir(base, func(p string, d fs.DirEntry, err error) error {
		if err != nil {
			return nil
		}
		if d.IsDir() && strings.HasSuffix(p, ".dir") {
			return filepath.SkipDir
		}
		if !d.IsDir() {
			paths = append(paths, p)
		}
		return nil
	})
	sort.Strings(paths)
	for _, p := range paths {
		ext := filepath.Ext(p)
		if ext != ".go" && ext != ".html" && ext != ".md" {
			continue
		}
		data, err := os.ReadFile(p)
		if err != nil || len(data) > 64<<10 {
			continue
		}
		rel, _ := filepath.Rel(base, p)
		src := source{name: rel, files: map[string][]byte{}}
		dir := strings.TrimSuffix(p, ext) + ".dir"
		if ext == ".go" {
			src.program = true
			src.files["main.go"] = data
			src.files["go.mod"] = []byte("module testdata\n")
		} else {
			src.root = "index" + ext
			src.files[src.root] = data
		}
		if st, err := os.Stat(dir); err == nil && st.IsDir() {
			filepath.WalkDir(dir, func(q string, d fs.DirEntry, err error) error {
				if err != nil || d.IsDir() {
					return nil
				}
				b, err := os.ReadFile(q)
				if err == nil && len(b) <= 64<<10 {
					r, _ := filepath.Rel(dir, q)
					src.files[filepath.ToSlash(r)] = b
				}
				return nil
			})
		}
		corpus = append(corpus, src)
	}
	if len(corpus) < 500 {
		harness.Fail("comparison corpus not found under %s (%d files)", base, len(corpus))
	}
}

// ---- the simulated disk's damage ---------------------------------------------

var dict = []string{"{", "}", "%", "#", "{{", "}}", "{%", "%}", "{#", "#}", "{%%", "%%}", "\"", "'", "`", "<", ">", "\\", "/", "-", "\r", "\n", "\x00", "\xff", "\xef\xbb\xbf", "(", ")", "[", "]", ";", ":", "=", "<!--", "-->", "<script>", "</script>", "<style>", "\xe2\x80\xa8", "0x", "1e", ".", "..", "...", "'\\", "/*", "*/", "//", "raw", "end", "macro", "extends", "import", "render", "func", "go", "select", "case", "defer", "var", "type", "struct", "interface", "chan", "<-", "\t", " ", "é", "\xf0\x9f\x98\x80", "\f", "\v", "\u0085", "\u00a0", "\u2003", "\f\n", " \f ", "\r\n", "\ufeff", "{{-", "-}}", "{%-", "-%}"}

var spaces = []string{"\f", "\v", "\u0085", "\u00a0", " \f", "\f\n", "\t\f\t", "\r", "\u2028", "\u3000", "\f\f", "\n\v\n"}

// damage applies one stored-bytes fault to data and names it.
func damage(s *choice.Stream, data []byte, other []byte) ([]byte, string) {
	n := len(data)
	switch s.Pick(5, 4, 3, 2, 2, 1, 1, 3, 2) {
	case 8: // unusual white space (form feed, vertical tab, NEL, NBSP...) at a statement boundary
		var bounds []int
		for i := 0; i+1 < n; i++ {
			if (data[i] == '%' || data[i] == '}' || data[i] == '#') && data[i+1] == '}' {
				bounds = append(bounds, i+2)
			}
			if data[i] == '{' && (data[i+1] == '%' || data[i+1] == '{' || data[i+1] == '#') {
				bounds = append(bounds, i)
			}
		}
		bounds = append(bounds, 0, n)
		pos := bounds[s.N(len(bounds))]
		d := spaces[s.N(len(spaces))]
		out := append(append(append([]byte(nil), data[:pos]...), d...), data[pos:]...)
		return out, fmt.Sprintf("space-at-boundary@%d=%q", pos, d)
	case 7: // garbage inserted exactly at a statement / show boundary
		var bounds []int
		for i := 0; i+1 < n; i++ {
			if (data[i] == '%' || data[i] == '}' || data[i] == '#') && data[i+1] == '}' {
				bounds = append(bounds, i+2)
			}
			if data[i] == '{' && (data[i+1] == '%' || data[i+1] == '{' || data[i+1] == '#') {
				bounds = append(bounds, i)
			}
		}
		if len(bounds) == 0 {
			return data, "none"
		}
		pos := bounds[s.N(len(bounds))]
		d := dict[s.N(len(dict))]
		if s.Bool() {
			d += dict[s.N(len(dict))]
		}
		out := append(append(append([]byte(nil), data[:pos]...), d...), data[pos:]...)
		return out, fmt.Sprintf("insert-at-boundary@%d=%q", pos, d)
	case 0: // torn / truncated write
		if n == 0 {
			return data, "none"
		}
		k := s.N(n + 1)
		return append([]byte(nil), data[:k]...), fmt.Sprintf("truncate@%d", k)
	case 1: // flipped stored bytes (1-3) from the delimiter dictionary
		out := append([]byte(nil), data...)
		cnt := 1 + s.N(3)
		desc := "flip"
		for i := 0; i < cnt; i++ {
			d := dict[s.N(len(dict))]
			pos := 0
			if len(out) > 0 {
				pos = s.N(len(out))
			}
			end := pos + len(d)
			if end > len(out) {
				end = len(out)
			}
			out = append(append(append([]byte(nil), out[:pos]...), d...), out[end:]...)
			desc += fmt.Sprintf("@%d=%q", pos, d)
		}
		return out, desc
	case 2: // inserted garbage from the dictionary
		d := dict[s.N(len(dict))]
		pos := s.N(n + 1)
		out := append(append(append([]byte(nil), data[:pos]...), d...), data[pos:]...)
		return out, fmt.Sprintf("insert@%d=%q", pos, d)
	case 3: // stale/new mix: prefix of this file, suffix of another
		if len(other) == 0 || n == 0 {
			return data, "none"
		}
		a := s.N(n + 1)
		b := s.N(len(other) + 1)
		return append(append([]byte(nil), data[:a]...), other[b:]...), fmt.Sprintf("splice@%d+%d", a, b)
	case 4: // duplicated block
		if n == 0 {
			return data, "none"
		}
		a := s.N(n)
		b := a + 1 + s.N(n-a)
		out := append(append(append([]byte(nil), data[:b]...), data[a:b]...), data[b:]...)
		return out, fmt.Sprintf("dup[%d:%d]", a, b)
	case 5: // truncate then flip the last bytes (e.g. `{##`)
		if n < 2 {
			return data, "none"
		}
		k := 1 + s.N(min(n, 40))
		out := append([]byte(nil), data[:k]...)
		d := dict[s.N(len(dict))]
		return append(out, d...), fmt.Sprintf("truncate@%d+%q", k, d)
	default: // deleted block
		if n == 0 {
			return data, "none"
		}
		a := s.N(n)
		b := a + 1 + s.N(min(n-a, 30))
		return append(append([]byte(nil), data[:a]...), data[b:]...), fmt.Sprintf("delete[%d:%d]", a, b)
	}
}

// ---- one build ----------------------------------------------------------------

type formatFS struct {
	fs.FS
	format scriggo.Format
	fail   bool
}

func (f formatFS) Format(name string) (scriggo.Format, error) {
	if f.fail {
		return 0, fmt.Errorf("E: format error")
	}
	return f.format, nil
}

var hPackage = native.Package{Name: "h", Declarations: native.Declarations{
	"Point": func(env native.Env, id int) {},
	"Rec":   func(id int, v any) {},
	"Call":  func(id int, f func()) { f() },
	"Err":   func(id int) error { return nil },
	"Yes":   func(id int) bool { return true },
}}

type outcome struct {
	class  string
	detail string
	built  bool
	err    error
}

func buildOnce(src source, fsys fs.FS, opts *scriggo.BuildOptions) (o outcome) {
	returned := false
	leaked := sched.Bubble(theT, func() {
		p, val, stack := harness.Guard(func() {
			if src.program {
				prog, err := scriggo.Build(fsys, opts)
				o.err = err
				if err == nil {
					o.built = true
					prog.Disassemble("main")
				}
			} else {
				t, err := scriggo.BuildTemplate(fsys, src.root, opts)
				o.err = err
				if err == nil {
					o.built = true
					for _, n := range []int{-1, 0, 7} {
						t.Disassemble(n)
					}
					t.UsedVars()
				}
			}
		})
		returned = true
		if p {
			o.class = "host-panic"
			o.detail = fmt.Sprintf("%v\n%s", val, stack)
			return
		}
		// Let every goroutine of the build settle; goroutines that are still
		// blocked when the bubble ends are reported by synctest (leaked).
		synctest.Wait()
	})
	if !returned && o.class == "" {
		o.class = "deadlock"
		o.detail = "Build never returned: every goroutine of the build (parser, lexer) is blocked"
	} else if leaked && o.class == "" {
		o.class = "goroutine-leak"
		o.detail = "goroutines of the build are still blocked after it returned"
	}
	return o
}

var capacities = []int{-1, 0, 1, 3}

func exec(r *harness.Run) *harness.Violation {
	s := r.S
	// Source.
	var src source
	opts := &scriggo.BuildOptions{AllowGoStmt: true}
	switch s.Pick(6, 4, 2, 1, 1, 2, 1) {
	case 6:
		// A module of several packages with a drawn import graph (cycles,
		// diamonds, missing packages): built undamaged half of the time.
		g := pkgs.Gen(s, pkgs.Options{Feature: r.Feature})
		src = source{name: "generated package graph", program: true, files: map[string][]byte{}}
		for n, c := range g.Files {
			src.files[n] = []byte(c)
		}
		if g.HasCycle {
			r.Count("probe.import_cycle_reachable", 1)
		}
	case 5:
		// A very short stored file: 1-6 delimiters/keywords (what is left of
		// a file after a torn write near its beginning).
		var b []byte
		for i, n := 0, 1+s.N(6); i < n; i++ {
			b = append(b, dict[s.N(len(dict))]...)
		}
		if s.Chance(1, 3) {
			src = source{name: "delimiter soup", program: true, files: map[string][]byte{"main.go": append([]byte("package main\n"), b...), "go.mod": []byte("module m\n")}}
		} else {
			root := "index" + []string{".html", ".md", ".js", ".css", ".json", ".txt"}[s.N(6)]
			src = source{name: "delimiter soup", files: map[string][]byte{root: b}, root: root}
		}
	case 0:
		src = corpus[s.N(len(corpus))]
		if src.program {
			// the standard library subset the corpus programs import
			opts.Packages = stdpkgs.Packages
		}
	case 1:
		set := tmpl.Gen(s, tmpl.Options{Feature: r.Feature, MaxPieces: 5})
		src = source{name: "generated template set", files: set.FilesBytes(), root: set.Main}
		opts.Globals = set.Globals
		opts.MarkdownConverter = func(b []byte, w io.Writer) error { return nil }
	case 2:
		t := tree.Gen(s, tree.Options{Feature: r.Feature})
		src = source{name: "generated file tree", files: map[string][]byte{}, root: t.Root}
		for n, c := range t.Files {
			src.files[n] = []byte(c)
		}
	case 3:
		p := skel.Gen(s, skel.Options{Feature: r.Feature, DeferPkgFunc: true})
		src = source{name: "generated skeleton program", program: true, files: map[string][]byte{}}
		for n, c := range p.Files {
			src.files[n] = []byte(c)
		}
		opts.Packages = native.Packages{"h": hPackage}
	case 4:
		p := conc.Gen(s, conc.Options{Feature: r.Feature})
		src = source{name: "generated concurrent program", program: true, files: map[string][]byte{"main.go": []byte(p.Files["main.go"])}}
	}
	// Copy and damage one file (or none).
	files := map[string][]byte{}
	var names []string
	for n, c := range src.files {
		files[n] = c
		names = append(names, n)
	}
	sort.Strings(names)
	dmg := "none"
	victim := ""
	// Generated file trees are also built undamaged half of the time: their
	// reference graphs (extends in rendered files, cycles, escaping paths) are
	// unusual inputs of their own.
	dnum, dden := 9, 10
	if src.name == "generated file tree" || src.name == "generated package graph" {
		dnum, dden = 1, 2
	}
	if s.Chance(dnum, dden) {
		victim = names[s.N(len(names))]
		other := corpus[s.N(len(corpus))]
		// (no map iteration in decision paths: the first file by name)
		var onames []string
		for n := range other.files {
			onames = append(onames, n)
		}
		sort.Strings(onames)
		ob := other.files[onames[0]]
		files[victim], dmg = damage(s, files[victim], ob)
	}
	// Knobs.
	capacity := capacities[s.N(len(capacities))]
	scriggo.SetSimTokenChanCap(capacity)
	opts.NoParseShortShowStmt = s.Chance(1, 5)
	rec := simio.New(files)
	rec.ShortReads = s.Chance(1, 8)
	if s.Chance(1, 6) {
		rec.Fault = simio.Fault{At: 1 + s.N(12), Kind: []string{"error", "notfound", "short", "eof-with-data", "zero"}[s.N(5)]}
	}
	var fsys fs.FS = rec
	fsName := "plain fs.FS"
	if !src.program {
		switch s.N(4) {
		case 1:
			fsys = simio.ReadFileFS{FS: rec}
			fsName = "fs.ReadFileFS"
		case 2:
			fsys = formatFS{FS: rec, format: scriggo.Format(s.N(6))}
			fsName = "FormatFS"
		case 3:
			if s.Chance(1, 4) {
				fsys = formatFS{FS: rec, fail: true}
				fsName = "FormatFS(failing)"
			}
		}
	}
	ctx := fmt.Sprintf("%s (%s), file %q damaged by %s, token channel capacity %d, %s", src.name, map[bool]string{true: "program", false: "template"}[src.program], victim, dmg, capacity, fsName)
	art := map[string]any{"source": src.name, "program": src.program, "root": src.root, "damage": dmg, "victim": victim, "capacity": capacity, "fs": fsName}
	if victim != "" {
		art["damaged_content"] = string(files[victim])
	} else if len(files) <= 2 {
		for n, c := range files {
			if n != "go.mod" {
				art["content"] = string(c)
			}
		}
	}
	r.Artefact = art
	r.Logf("%s", ctx)
	if r.ShowOnly() {
		return nil
	}
	o := buildOnce(src, fsys, opts)
	scriggo.SetSimTokenChanCap(-1)
	r.Evals(1)
	if dmg != "none" {
		r.Count("fault."+strings.SplitN(strings.SplitN(dmg, "@", 2)[0], "[", 2)[0], 1)
		r.Distinct(src.name + "|" + victim + "|" + dmg)
	}
	if rec.Fired {
		r.Count("fault.io-"+rec.Fault.Kind, 1)
	}
	r.Count(fmt.Sprintf("capacity.%d", capacity), 1)
	// Reach per kind of source: a kind that never builds is a blind spot of
	// the workload (it happened: programs could not be built at all while the
	// simulated file system did not list directories).
	kind := src.name
	if strings.Contains(kind, "/") || strings.HasSuffix(kind, ".go") || strings.HasSuffix(kind, ".html") || strings.HasSuffix(kind, ".md") {
		kind = map[bool]string{true: "corpus program", false: "corpus template"}[src.program]
	}
	r.Count("source."+kind, 1)
	if o.built {
		r.Count("probe.build_succeeded", 1)
		r.Count("built."+kind, 1)
	}
	if o.class != "" {
		return harness.Violf(o.class, "%s: %s", ctx, o.detail)
	}
	r.Sample(map[string]any{"source": src.name, "damage": dmg, "capacity": capacity, "fs": fsName, "built": o.built})
	return nil
}
