//go:build verif

// C10 — compiled programs and templates run in isolation, repeatedly and
// concurrently.
//
// An episode builds one artefact (a template set, a sequential skeleton
// program with natives and package-level state, or a concurrent program) and
// lets 2..8 simulated clients run it 1..3 times each, with inputs drawn per
// run, under the seeded scheduler: interleaving at instruction granularity
// plus yields inside natives, the writer, the Markdown converter and
// stringers. Every run must equal a solo run of a FRESHLY built copy with the
// same inputs. In race mode the race detector watches the same serial
// schedules.
package c10

import (
	"context"
	"errors"
	"fmt"
	"io"
	"sort"
	"strconv"
	"strings"
	"sync"
	"testing"

	"verifsim/gen/conc"
	"verifsim/gen/skel"
	"verifsim/gen/tmpl"
	"verifsim/harness"
	"verifsim/sched"

	"github.com/open2b/scriggo"
	"github.com/open2b/scriggo/native"
)

var theT *testing.T

func TestC10(t *testing.T) {
	theT = t
	sched.Install()
	tmpl.StringerHook = func(id int) { sched.Yield(sched.YNative, "stringer") }
	harness.Main(t, harness.Check{Prop: "C10", Exec: exec, ShrinkBudget: 200, Retries: 4})
}

// ---- per-run observation ----------------------------------------------------

// obs is everything one run lets the caller observe.
type obs struct {
	out      strings.Builder // bytes written (templates)
	printed  strings.Builder // print/println text
	events   []string        // native events (skeleton programs)
	asyncMu  sync.Mutex      // natives started with a go statement run in goroutines of their own
	async    []int           // ids seen by natives started with a go statement
	err      string
	panicked bool
	pval     string
	after    string // values of pointer-passed variables after the run
	count    int    // Point calls so far (fault plan of skeleton programs)
	plan     splan
}

type splan struct {
	k    int
	kind string // "", "stop", "fatal"
}

func (o *obs) print(v any) {
	s, ok := v.(string)
	if !ok {
		s = fmt.Sprint(v)
	}
	o.printed.WriteString(s)
}

func (o *obs) summary() string {
	o.asyncMu.Lock()
	async := append([]int(nil), o.async...)
	o.asyncMu.Unlock()
	sort.Ints(async)
	return fmt.Sprintf("out=%q printed=%q events=%v async=%v err=%q panicked=%v pval=%q after=%s", o.out.String(), o.printed.String(), o.events, async, o.err, o.panicked, o.pval, o.after)
}

// yieldWriter is the simulated output writer: every write is a yield point.
type yieldWriter struct{ o *obs }

func (w yieldWriter) Write(p []byte) (int, error) {
	sched.Yield(sched.YWrite, "write")
	w.o.out.Write(p)
	return len(p), nil
}

func conv(src []byte, out io.Writer) error {
	sched.Yield(sched.YNative, "conv")
	if _, err := out.Write([]byte("<md>")); err != nil {
		return err
	}
	if _, err := out.Write(src); err != nil {
		return err
	}
	_, err := out.Write([]byte("</md>"))
	return err
}

type obsKey struct{}

var errStop = errors.New("E: stop")

func obsOf(env native.Env) *obs {
	o, _ := env.Context().Value(obsKey{}).(*obs)
	if o == nil {
		harness.Fail("native called without an observation context")
	}
	return o
}

// hPackage is the native package of skeleton programs; the run's recorder is
// found through env.Context(), so one compiled program serves all runs.
var hPackage = native.Package{Name: "h", Declarations: native.Declarations{
	"Point": func(env native.Env, id int) {
		o := obsOf(env)
		sched.Yield(sched.YNative, "Point")
		o.count++
		o.events = append(o.events, "P"+strconv.Itoa(id))
		if o.count == o.plan.k {
			switch o.plan.kind {
			case "stop":
				env.Stop(errStop)
			case "fatal":
				env.Fatal("fatal-" + strconv.Itoa(id))
			}
		}
	},
	"Rec": func(env native.Env, id int, v any) {
		o := obsOf(env)
		o.events = append(o.events, "R"+strconv.Itoa(id)+":"+fmt.Sprint(v))
	},
	"Call": func(env native.Env, id int, f func()) {
		o := obsOf(env)
		o.events = append(o.events, "C"+strconv.Itoa(id))
		sched.Yield(sched.YNative, "Call")
		f()
		o.events = append(o.events, "c"+strconv.Itoa(id))
	},
	"Err": func(id int) error { return errors.New("e" + strconv.Itoa(id)) },
	"Yes": func(id int) bool { return true },
	// Async is started with a go statement: it runs in a goroutine of its
	// own (owned by the simulator through the GoNative hook).
	"Async": func(env native.Env, id int) {
		o := obsOf(env)
		sched.Yield(sched.YNative, "Async")
		o.asyncMu.Lock()
		o.async = append(o.async, id)
		o.asyncMu.Unlock()
	},
}}

// ---- artefacts ---------------------------------------------------------------

type input struct {
	vars map[string]any // templates
	plan splan          // skeleton programs
	desc string
}

type artefact interface {
	// build compiles a new copy.
	build() (runner, error)
	describe() any
}

// runner executes one run with the given input, filling o.
type runner func(in input, o *obs)

func guard(o *obs, f func() error) {
	p, val, _ := harness.Guard(func() {
		if err := f(); err != nil {
			o.err = fmt.Sprintf("%T:%v", err, err)
		}
	})
	if p {
		o.panicked = true
		o.pval = fmt.Sprintf("%T:%v", val, val)
	}
}

type tmplArt struct{ set *tmpl.Set }

func (a tmplArt) describe() any {
	return map[string]any{"kind": "template", "files": a.set.Files, "main": a.set.Main}
}
func (a tmplArt) build() (runner, error) {
	t, err := scriggo.BuildTemplate(scriggo.Files(a.set.FilesBytes()), a.set.Main, &scriggo.BuildOptions{Globals: a.set.Globals, MarkdownConverter: conv})
	if err != nil {
		return nil, err
	}
	return func(in input, o *obs) {
		vars := tmpl.FreshVars(in.vars) // the caller's pointers are per run
		guard(o, func() error { return t.Run(yieldWriter{o}, vars, &scriggo.RunOptions{Print: o.print}) })
		o.after = fmt.Sprintf("pcnt=%d cnt(in caller's map)=%v", *vars["pcnt"].(*int), in.vars["cnt"])
	}, nil
}

type skelArt struct{ p *skel.Prog }

func (a skelArt) describe() any { return map[string]any{"kind": "program", "files": a.p.Files} }
func (a skelArt) build() (runner, error) {
	fsys := scriggo.Files{}
	for n, src := range a.p.Files {
		fsys[n] = []byte(src)
	}
	prog, err := scriggo.Build(fsys, &scriggo.BuildOptions{Packages: native.Packages{"h": hPackage}, AllowGoStmt: true})
	if err != nil {
		return nil, err
	}
	return func(in input, o *obs) {
		o.plan = in.plan
		ctx := context.WithValue(context.Background(), obsKey{}, o)
		guard(o, func() error { return prog.Run(&scriggo.RunOptions{Print: o.print, Context: ctx}) })
	}, nil
}

type concArt struct{ p *conc.Prog }

func (a concArt) describe() any {
	return map[string]any{"kind": "concurrent program", "main.go": a.p.Files["main.go"]}
}
func (a concArt) build() (runner, error) {
	prog, err := scriggo.Build(scriggo.Files{"main.go": []byte(a.p.Files["main.go"])}, &scriggo.BuildOptions{AllowGoStmt: true})
	if err != nil {
		return nil, err
	}
	return func(in input, o *obs) {
		guard(o, func() error { return prog.Run(&scriggo.RunOptions{Print: o.print}) })
	}, nil
}

// solo runs one input on a freshly built copy, alone, under the scheduler's
// simplest policy (needed for programs that start goroutines).
func solo(r *harness.Run, a artefact, in input) (*obs, error) {
	run, err := a.build()
	if err != nil {
		return nil, err
	}
	o := &obs{}
	var oc sched.Outcome
	sched.Bubble(theT, func() {
		s := sched.New(r.S)
		s.Policy = 1
		s.MaxSteps = 60000
		s.Spawn("solo", func() { run(in, o) })
		oc = s.Run(nil)
	})
	if oc.Kind != "done" {
		return nil, fmt.Errorf("solo run did not finish: %s %v", oc.Kind, oc.Blocked)
	}
	return o, nil
}

func exec(r *harness.Run) *harness.Violation {
	s := r.S
	var art artefact
	kind := s.Pick(5, 3, 2)
	nInputs := s.Range(1, 3)
	inputs := make([]input, nInputs)
	switch kind {
	case 0:
		set := tmpl.Gen(s, tmpl.Options{Feature: r.Feature, MaxPieces: 6})
		art = tmplArt{set}
		for i := range inputs {
			if i == 0 {
				inputs[i] = input{vars: set.Vars}
			} else {
				_, v := tmpl.DrawVars(s)
				inputs[i] = input{vars: v}
			}
			inputs[i].desc = fmt.Sprintf("vars#%d", i)
		}
	case 1:
		p := skel.Gen(s, skel.Options{Feature: r.Feature, GoNative: true})
		art = skelArt{p}
		for i := range inputs {
			pl := splan{}
			switch s.Pick(3, 2, 1) {
			case 1:
				pl = splan{k: 1 + s.N(6), kind: "stop"}
			case 2:
				pl = splan{k: 1 + s.N(6), kind: "fatal"}
			}
			inputs[i] = input{plan: pl, desc: fmt.Sprintf("plan %s@%d", pl.kind, pl.k)}
		}
	case 2:
		p := conc.Gen(s, conc.Options{Feature: r.Feature, MaxBlocks: 2})
		art = concArt{p}
		inputs = inputs[:1]
		inputs[0].desc = "no input"
	}
	r.Artefact = art.describe()
	if r.ShowOnly() {
		return nil
	}
	kindName := []string{"template", "program", "concurrent-program"}[kind]
	r.Count("artefact."+kindName, 1)

	// Reference: a fresh build per distinct input, run alone.
	refs := make([]*obs, len(inputs))
	for i, in := range inputs {
		o, err := solo(r, art, in)
		r.Evals(1)
		if err != nil {
			r.Count("skipped.reference_failed", 1)
			r.Logf("reference failed: %v", err)
			return nil
		}
		refs[i] = o
	}

	shared, err := art.build()
	if err != nil {
		harness.Fail("second build of the same artefact failed: %v", err)
	}
	maxClients := 8
	if r.Tier == "thorough" {
		maxClients = 32
	}
	nclients := 2 + s.Small(maxClients-2)
	type job struct {
		client, seq, input int
		o                  *obs
	}
	var jobs []*job
	var oc sched.Outcome
	var trace string
	var switches, steps int
	policy := s.Pick(5, 1, 2, 2)
	sched.Bubble(theT, func() {
		sim := sched.New(s)
		sim.Policy = policy
		sim.MaxSteps = 400000
		sim.MaxQuantum = 2000
		if r.Tier != "thorough" {
			sim.Log = nil
		}
		for c := 0; c < nclients; c++ {
			nruns := 1 + s.N(3)
			var mine []*job
			for k := 0; k < nruns; k++ {
				j := &job{client: c, seq: k, input: s.N(len(inputs)), o: &obs{}}
				jobs = append(jobs, j)
				mine = append(mine, j)
			}
			sim.Spawn(fmt.Sprintf("c%d", c), func() {
				for _, j := range mine {
					shared(inputs[j.input], j.o)
				}
			})
		}
		oc = sim.Run(nil)
		trace = sim.TraceHash()
		switches = sim.Switches
		steps = sim.Step
	})
	r.Evals(len(jobs))
	r.Count("sched_steps", steps)
	r.Count("context_switches", switches)
	r.Count("clients", nclients)
	r.Logf("%s episode: %d clients, %d runs, %d inputs, policy %d: outcome %s, %d steps, %d switches, trace %s", kindName, nclients, len(jobs), len(inputs), policy, oc.Kind, steps, switches, trace)
	if switches > 0 {
		r.Distinct(fmt.Sprint(r.Artefact) + "|" + trace)
	}
	switch oc.Kind {
	case "mismatch":
		harness.Fail("channel model mismatch: %s", oc.Detail)
	case "deadlock", "step-cap":
		return harness.Violf("no-progress", "%s episode with %d clients: %s although every solo run finished: %s", kindName, nclients, oc.Kind, strings.Join(oc.Blocked, "; "))
	}
	for _, j := range jobs {
		got, want := j.o.summary(), refs[j.input].summary()
		if got != want {
			return harness.Violf("run-differs-from-solo", "%s episode (%d clients, %d runs): run %d of client %d with %s differs from a solo run of a fresh build:\n--- concurrent run\n%s\n--- solo run\n%s", kindName, nclients, len(jobs), j.seq, j.client, inputs[j.input].desc, got, want)
		}
	}
	r.Sample(map[string]any{"artefact": kindName, "clients": nclients, "runs": len(jobs), "inputs": len(inputs), "steps": steps, "switches": switches})
	return nil
}
