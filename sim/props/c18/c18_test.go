// C18 — template file loading stays inside the file system and terminates.
//
// Seam: the fs.FS given to BuildTemplate. A recording, fault-injecting file
// system (plain fs.FS, fs.ReadFileFS, scriggo.FormatFS, and scriggo.Files
// behind the recorder) delivers a generated file tree; the invariants are
// checked over the recorded history of calls of one build.
package c18

import (
	"fmt"
	"io/fs"
	"sort"
	"strings"
	"testing"

	"verifsim/gen/tree"
	"verifsim/harness"
	"verifsim/simio"

	"github.com/open2b/scriggo"
)

func TestC18(t *testing.T) {
	harness.Main(t, harness.Check{Prop: "C18", Exec: exec, ShrinkBudget: 300})
}

// formatFS adds scriggo.FormatFS to a recording file system.
type formatFS struct {
	fs.FS
	rec *simio.FS
}

func (f formatFS) Format(name string) (scriggo.Format, error) {
	f.rec.Calls = append(f.rec.Calls, simio.Call{Op: "Format", Name: name})
	return scriggo.FormatHTML, nil
}

// filesFS wraps the library's own Files type behind the recorder (real code
// under the recorder).
type filesFS struct {
	files scriggo.Files
	rec   *simio.FS
}

func (f filesFS) Open(name string) (fs.File, error) {
	fl, err := f.files.Open(name)
	c := simio.Call{Op: "ReadFile", Name: name}
	if err != nil {
		c.Err = err.Error()
	}
	f.rec.Calls = append(f.rec.Calls, c)
	return fl, err
}

type buildResult struct {
	err      error
	panicked bool
	pval     any
	stack    string
	out      string
	runErr   error
}

var fsKinds = []string{"plain fs.FS", "fs.ReadFileFS", "FormatFS", "scriggo.Files"}

func build(t *tree.Tree, fsKind int, fault simio.Fault, short bool) (*simio.FS, buildResult) {
	files := map[string][]byte{}
	for n, c := range t.Files {
		files[n] = []byte(c)
	}
	rec := simio.New(files)
	rec.Fault = fault
	rec.ShortReads = short
	var fsys fs.FS
	switch fsKind {
	case 0:
		fsys = rec
	case 1:
		fsys = simio.ReadFileFS{FS: rec}
	case 2:
		fsys = formatFS{FS: rec, rec: rec}
	case 3:
		fsys = filesFS{files: scriggo.Files(files), rec: rec}
	}
	var res buildResult
	res.panicked, res.pval, res.stack = harness.Guard(func() {
		var tm *scriggo.Template
		tm, res.err = scriggo.BuildTemplate(fsys, t.Root, nil)
		if res.err == nil {
			var b strings.Builder
			res.runErr = tm.Run(&b, nil, nil)
			res.out = b.String()
		}
	})
	return rec, res
}

// checkHistory checks the invariants over the recorded calls of one build.
func checkHistory(t *tree.Tree, rec *simio.FS, ctx string) *harness.Violation {
	// Names that a delivered file legitimately refers to.
	delivered := map[string]bool{}
	allowed := map[string]bool{t.Root: true}
	allow := func(f string) {
		delivered[f] = true
		for _, r := range t.Refs[f] {
			if r.Invalid {
				continue
			}
			if name, ok := tree.Resolve(f, r.Path); ok {
				allowed[name] = true
			}
		}
	}
	reads := map[string]int{}
	nrefs := 0
	for _, rs := range t.Refs {
		nrefs += len(rs)
	}
	requests := 0
	open := map[string]bool{}
	for _, c := range rec.Calls {
		switch c.Op {
		case "Open", "ReadFile", "Format":
			if !fs.ValidPath(c.Name) || c.Name == "." {
				return harness.Violf("invalid-path", "%s: %s called with %q, which is not a valid rooted path", ctx, c.Op, c.Name)
			}
			if !allowed[c.Name] {
				return harness.Violf("unreferenced-path", "%s: %s called with %q, which is neither the root nor the resolution of a reference in a file delivered so far (delivered %v)", ctx, c.Op, c.Name, keys(delivered))
			}
			if c.Op != "Format" {
				requests++
			}
			if c.Op == "ReadFile" && c.Err == "" {
				reads[c.Name]++
				allow(c.Name)
			}
			if c.Op == "Open" && c.Err == "" {
				open[c.Name] = true
			}
		case "Read":
			if c.Err == "EOF" && open[c.Name] {
				open[c.Name] = false
				reads[c.Name]++
				allow(c.Name)
			}
		}
	}
	for n, k := range reads {
		if k > 1 {
			return harness.Violf("read-twice", "%s: file %q was read %d times in one build", ctx, n, k)
		}
	}
	if limit := 1 + len(t.Files) + nrefs; requests > limit {
		return harness.Violf("too-many-calls", "%s: %d open requests for a tree of %d files and %d references", ctx, requests, len(t.Files), nrefs)
	}
	return nil
}

func keys(m map[string]bool) []string {
	var out []string
	for k := range m {
		out = append(out, k)
	}
	sort.Strings(out)
	return out
}

func exec(r *harness.Run) *harness.Violation {
	s := r.S
	t := tree.Gen(s, tree.Options{Feature: r.Feature})
	fsKind := s.N(4)
	short := s.Chance(1, 4)
	r.Artefact = map[string]any{"root": t.Root, "files": t.Files, "fs": fsKinds[fsKind]}
	key := t.Describe()
	ctx := fmt.Sprintf("tree of %d files through %s", len(t.Files), fsKinds[fsKind])

	// Fault-free build.
	rec, res := build(t, fsKind, simio.Fault{}, short)
	r.Evals(1)
	r.Logf("%s: err=%v calls=%s", ctx, res.err, rec.String())
	if res.panicked {
		return harness.Violf("host-panic", "%s: BuildTemplate panicked: %v\n%s", ctx, res.pval, res.stack)
	}
	if v := checkHistory(t, rec, ctx); v != nil {
		return v
	}
	r.Distinct(key + "|" + fsKinds[fsKind])
	if res.err == nil {
		r.Count("probe.build_succeeded", 1)
	}
	cyc := t.HasReachableCycle()
	if cyc {
		r.Count("probe.cycle_reachable", 1)
		if res.err == nil {
			return harness.Violf("cycle-not-reported", "%s: a reference cycle is reachable from the root but the build succeeded", ctx)
		}
	}
	// Escaping references behave exactly like missing files: retarget every
	// escaping reference to a fresh non-existent in-root name and compare.
	hasEsc := false
	t2 := &tree.Tree{Files: map[string]string{}, Refs: t.Refs, Root: t.Root, Order: t.Order}
	for n, c := range t.Files {
		for _, rf := range t.Refs[n] {
			if rf.Escapes {
				hasEsc = true
				c = strings.ReplaceAll(c, fmt.Sprintf("%q", rf.Path), fmt.Sprintf("%q", "/zz_not_there/esc.html"))
			}
		}
		t2.Files[n] = c
	}
	if hasEsc {
		r.Count("probe.escaping_reference", 1)
		// references never reach the FS: no request may name anything outside
		// (invalid-path above) — and the outcome equals the missing-file one.
		_, res2 := build(t2, fsKind, simio.Fault{}, short)
		r.Evals(1)
		if (res.err == nil) != (res2.err == nil) {
			return harness.Violf("escape-differs-from-missing", "%s: with escaping references the build returned %v, with the same references pointing to a missing file %v", ctx, res.err, res2.err)
		}
		if res.err == nil && res.out != res2.out {
			return harness.Violf("escape-differs-from-missing", "%s: output %q with escaping references, %q with missing ones", ctx, res.out, res2.out)
		}
		if res.err != nil && strings.Contains(res2.err.Error(), "does not exist") != strings.Contains(res.err.Error(), "does not exist") {
			return harness.Violf("escape-differs-from-missing", "%s: escaping reference reported as %q, missing file as %q", ctx, res.err, res2.err)
		}
	}

	// Faults: every call index of the fault-free history, one kind each
	// (drawn), plus a "not found" lie.
	ncalls := len(rec.Calls)
	kinds := []string{"error", "notfound", "short", "eof-with-data", "zero"}
	if fsKind == 3 {
		ncalls = 0 // scriggo.Files is real code: no fault seam below it
	}
	for k := 1; k <= ncalls && k <= 60; k++ {
		kind := kinds[s.N(len(kinds))]
		frec, fres := build(t, fsKind, simio.Fault{At: k, Kind: kind}, short)
		r.Evals(1)
		fctx := fmt.Sprintf("%s, fault %s at file-system call %d of %d", ctx, kind, k, ncalls)
		if frec.Fired {
			r.Count("fault."+kind, 1)
			r.Distinct(fmt.Sprintf("%s|%s|%d|%s", key, fsKinds[fsKind], k, kind))
		}
		if fres.panicked {
			return harness.Violf("host-panic", "%s: BuildTemplate panicked: %v\n%s", fctx, fres.pval, fres.stack)
		}
		if v := checkHistory(t, frec, fctx); v != nil {
			return v
		}
		if frec.Fired && kind == "error" && fres.err == nil {
			// Not part of the statement (Stat and Close errors are ignored by
			// io/fs.ReadFile and the library by design): observation only.
			r.Count("observation.build_succeeded_despite_io_error", 1)
		}
	}
	r.Sample(map[string]any{"files": len(t.Files), "fs": fsKinds[fsKind], "fs_calls": ncalls, "cycle_reachable": cyc, "escaping": hasEsc, "built": res.err == nil})
	return nil
}
