module maporder

go 1.25.0

require golang.org/x/tools v0.43.0

require (
	golang.org/x/mod v0.34.0 // indirect
	golang.org/x/sync v0.20.0 // indirect
)
